"""Named matchers for known findings: predicate(cex_record, finding_entry) -> bool.
One matcher per defect, never per property or per function."""

MATCHERS = {}


def matcher(name):
    def deco(f):
        MATCHERS[name] = f
        return f
    return deco


@matcher('c05_const_inequality_float_tie')
def c05_const_inequality_float_tie(c, k):
    """const_inequality evaluates with IEEE doubles: when both sides are *exactly equal* as reals (a tie), rounding of
    sqrt/*// can make a strict comparison come out true.  Only ties are covered: any accepted false statement whose
    sides differ as reals is a different defect."""
    if c.get('kind') != 'fp-false' or c.get('macro') != 'const_inequality' or c.get('rel') not in ('less', 'greater'):
        return False
    v = c['vals']
    a, b, cc = v['a'], v['b'], v['c']
    t = c['template']
    if t == 0:
        return True
    if t == 1:
        return a * b == cc * cc
    if t == 2:
        d = cc - a - b
        return d >= 0 and 4 * a * b == d * d
    if t == 3:
        return a * a == b * cc
    return False


@matcher('c10_int_norm_conv_eval_differs')
def c10_int_norm_conv_eval_differs(c, k):
    """integer.int_norm_conv.eval (from_poly(convert_to_poly t)) and its proof term (simp_full + rewrites) produce
    different normal forms or eval fails (int_power arity) although a proof term exists.  Both equations are checked for
    validity separately by the harness (kind conv-eval-invalid / conv-invalid), so only the *disagreement in form* is covered here."""
    return c.get('kind') == 'conv-eval:integer.int_norm_conv'


@matcher('c19_substitution_branch_symbolic_bounds')
def c19_substitution_branch_symbolic_bounds(c, k):
    """Substitution / SubstitutionInverse with a map that is not injective on the interval (u = x^2, u = x^2 + 1, x = sqrt(u))
    applied to an integral over the *symbolic* symmetric interval [-a,a]: the end points collapse to a^2 and the branch check
    added by the fix (which is numeric) cannot be evaluated.  Numeric intervals and other maps are not covered."""
    if c.get('kind') not in ('step-changes-value:Substitution', 'step-changes-value:SubstitutionInverse'):
        return False
    return c.get('rule') in ('Substitution(u,x^2)', 'Substitution(u,x^2+1)', 'SubstitutionInverse(u,sqrt(u))') and str(c.get('before', '')).startswith('INT x:[-a,a].')


@matcher('c19_normalize_splits_root_of_product')
def c19_normalize_splits_root_of_product(c, k):
    """poly.normalize manipulates square roots of products, quotients and powers without knowing the signs of the factors
    (sqrt(-4 * x * a) -> 2 * sqrt(x) * sqrt(-a), sqrt((a - 1) * x) -> sqrt(x) * sqrt(a - 1), sqrt(x / -1 * (x / x)) -> -abs(x) / sqrt(x)):
    the result has no real value at points where the input has one.  Covered: loss of definedness by normalisation where both the
    input and the result contain a square root / half-integer power.  Loss of definedness without roots is not covered."""
    if c.get('kind') != 'step-loses-definedness:normalize':
        return False
    import re
    root = lambda t: ('sqrt(' in t) or re.search(r'\^ \(-?[0-9]+/2\)', t) is not None
    return root(str(c.get('before', ''))) and root(str(c.get('after', '')))


@matcher('c19_normalize_needs_second_round')
def c19_normalize_needs_second_round(c, k):
    """poly.normalize sorts, distributes and merges on the basis of the *un-normalised* subterms, so its result is sometimes not
    yet its own normal form: a second application still distributes a constant over a sum (1/9 * (x + 1) -> 1/9 * x + 1/9),
    merges powers (x * x ^ 2 -> x ^ 3), rewrites a * (1 / b) to a / b or reorders terms and factors -- and then stops.
    Covered: the two forms have the same value and the second result is a fixpoint.  A normalisation that changes the value,
    or that keeps changing, is not covered."""
    return c.get('kind') == 'normalize-not-idempotent' and c.get('same_value') is True and c.get('second_round_is_fixpoint') is True


@matcher('c19_substitution_across_pole_of_map')
def c19_substitution_across_pole_of_map(c, k):
    """Substitution(u = 1/x) and SubstitutionInverse(x = 1/u) are applied to an integral whose interval contains the pole x = 0 of the
    map in its interior ([-1,2], [-a,a]): the rules do not check that the map is continuous on the interval and return an integral
    across u = 0 of a non-integrable integrand (no value).  Only these two maps on intervals with 0 strictly inside are covered."""
    if c.get('kind') not in ('step-result-undefined:Substitution', 'step-result-undefined:SubstitutionInverse'):
        return False
    return c.get('rule') in ('Substitution(u,1/x)', 'SubstitutionInverse(u,1/u)') and str(c.get('before', '')).startswith(('INT x:[-1,2].', 'INT x:[-a,a].'))


@matcher('c19_split_region_outside_interval_across_pole')
def c19_split_region_outside_interval_across_pole(c, k):
    """SplitRegion accepts a split point outside the interval of integration; for the integrand 1 / x ^ 2 and a point on the other
    side of the pole x = 0 both new integrals run across the pole and have no value.  Only this integrand with a split point on the
    other side of 0 is covered."""
    # any split of an integral of 1 / x ^ 2 whose result has no value has put the split point beyond the pole
    return c.get('kind') == 'step-result-undefined:SplitRegion' and '1 / x ^ 2' in str(c.get('before', ''))
