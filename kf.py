"""Named matchers for known findings: predicate(cex_record, finding_entry) -> bool.
One matcher per defect, never per property or per function."""

MATCHERS = {}


def matcher(name):
    def deco(f):
        MATCHERS[name] = f
        return f
    return deco
