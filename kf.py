"""Named matchers for known findings: predicate(cex_record, finding_entry) -> bool.
One matcher per defect, never per property or per function."""

MATCHERS = {}


def matcher(name):
    def deco(f):
        MATCHERS[name] = f
        return f
    return deco


@matcher('c05_const_inequality_float_tie')
def c05_const_inequality_float_tie(c, k):
    """const_inequality evaluates with IEEE doubles: when both sides are *exactly equal* as reals (a tie), rounding of
    sqrt/*// can make a strict comparison come out true.  Only ties are covered: any accepted false statement whose
    sides differ as reals is a different defect."""
    if c.get('kind') != 'fp-false' or c.get('macro') != 'const_inequality' or c.get('rel') not in ('less', 'greater'):
        return False
    v = c['vals']
    a, b, cc = v['a'], v['b'], v['c']
    t = c['template']
    if t == 0:
        return True
    if t == 1:
        return a * b == cc * cc
    if t == 2:
        d = cc - a - b
        return d >= 0 and 4 * a * b == d * d
    if t == 3:
        return a * a == b * cc
    return False
