"""C13 -- proof editing preserves the goal and keeps the partial proof checkable.

A (symx, one inductive step from an arbitrary valid state): a proof skeleton (top-level lines + one nested block) whose
  citations are symbolic integers constrained only by the representation invariant (ids = positions; a citation names
  an earlier line of the same or an enclosing open block).  One editing operation with symbolic arguments runs on the
  real ProofState (add_line_before / remove_line / replace_id / set_line, on the live state or on a copy).  z3 proves
  for all citation values on the path: the invariant holds again, *every citation still denotes the same ProofItem
  object as before* (tracked by object identity), the last line's sequent is unchanged, and the original of a copied
  state is unchanged.  One step from an arbitrary invariant state covers editing histories of any length.
B (enumeration): sequences of <= 3 method applications (cut, cases, introduction, apply_backward_step conjI/disjI,
  apply_prev ...) on generated propositional goals: after every step a full re-check succeeds with exactly the open gaps
  unproved, the last line is the original goal, ids are contiguous and citations point to earlier visible lines,
  export -> parse_proof gives the same lines and the same check result, and a gap-free state is accepted with
  no_gaps=True; editing a copy leaves the original untouched.
"""
import itertools
import os
import random
from copy import copy

import z3

from vlib import symx
from vlib.symx import Engine, SymInt, SymBool, zexpr

PID = 'C13'
LEVEL = 'other'
LEVEL_TEXT = ('One inductive editing step from an arbitrary invariant-satisfying proof state, with all citations and operation arguments symbolic: z3 proves per '
              'path that the renumbering/splicing code keeps ids contiguous and every citation on the same ProofItem object, for all citation values. '
              'Method-level behaviour (re-check, goal preserved, export/parse round trip, copy isolation) is explored on bounded method sequences.')
LEVEL_NOTE = ('trusts z3, the proxy engine, the invariant stated in this file (a counterexample from a state no history reaches would mean the invariant is too weak, '
              'and is triaged, not reported); skeleton sizes and method sequences beyond the bounds are outside the claim')
TECHNIQUE = 'inductive-step symbolic execution of the real renumbering/splicing code (symbolic citations, z3-proved post-condition) + bounded method sequences'
FUNCTIONS = ['server.method:ProofState.add_line_before/remove_line/replace_id/set_line/find_goal/__copy__/apply_tactic', 'app.ide:ProofCache.create_cache/insert_step (class compiled from the source on its own)', 'kernel.proof:ItemID.incr_id_after/decr_id/incr_id',
             'kernel.proof:ProofItem.incr_proof_item/decr_proof_item/__copy__', 'kernel.proof:Proof.__copy__/insert_item/get_parent_proof/find_item',
             'server.method:apply_method (cut, cases, introduction, apply_backward_step, apply_prev, revert_intro)', 'server.server:parse_init_state/parse_proof', 'syntax.printer:export_proof_item']
ASSUMPTIONS = [
    'representation invariant assumed for the pre-state: ids = positions; each citation names an earlier line of the same or an enclosing open block',
    'remove_line is only applied to a line that no remaining line cites (its callers replace citations first); replace_id(old,new) with new an earlier line of the same block',
    'skeleton: 3-6 top-level lines, one nested block of 2-4 lines; one symbolic citation per line (two for the goal line; nested lines: one into their block, one into the enclosing block); insert counts 1-3',
    'method sequences: goals over A,B,C with & | --> ~, <= 3 steps from 9 step templates',
]
RULE = ('one evaluation = one explored path of one editing operation on a skeleton (a set of citation assignments) or one method sequence; '
        'distinct = distinct (skeleton, operation, decision trace) / distinct sequences; non-trivial = at least one citation crosses the edited position')
EXPLANATION = ('citations are z3 integers flowing through incr_id_after/decr_id/replace_id; the post-condition "citation still denotes the same object" is '
               'a z3 validity query per path over all citation values')
BUDGET_S = {'quick': 240, 'thorough': 900}


def bounds(tier):
    return {'top_level_lines': [3, 6], 'nested_block_lines': [2, 4], 'citations_per_line': '1 (2 for the goal line), values symbolic', 'insert_count': [1, 3],
            'operations': ['add_line_before', 'remove_line', 'replace_id', 'set_line', 'same on a copy'],
            'method_sequences': {'goals': len(GOALS), 'max_steps': 3, 'length_3': '160 seeded sequences per goal + all (block-building, block-building, out-of-scope fact) sequences' if tier == 'quick' else 'all', 'goal_oracle': 'the last line is compared with the goal as stated (parsed independently), not with the initial state'},
            'ide_cache': 'per goal: every pair of 7 recorded steps, insert_step at every index with each of the 7 steps; every stored state compared with a fresh replay'}


def setup(tier, seed):
    from logic import basic
    basic.load_theory('logic_base')
    symx.install_isinstance()


# ------------------------------------------------------------------ part A

def mk_state(eng, N, b, M):
    """ProofState with N top-level lines, nested block (M lines) at top-level position b (None: no block).
    Returns (state, objs) where objs maps position tuple -> ProofItem, and cits: list of (item, index, expr tuple)."""
    from kernel.proof import Proof, ProofItem
    from kernel.thm import Thm
    from kernel.term import Var
    from kernel.type import BoolType
    from server.method import ProofState
    A = Var('A', BoolType)
    th = Thm(A, A)
    st = ProofState()
    st.prf = Proof()
    objs = {}
    cits = []

    def citations(pos):
        """Citations of the line at position pos: one symbolic citation per line (two for the last top-level line);
        nested lines cite one earlier line of their block and one line of the enclosing block.  The *values* are symbolic,
        so this single shape stands for every assignment of citation targets allowed by the invariant."""
        out = []
        name = 'c_%s' % '_'.join(map(str, pos))
        if len(pos) == 1:
            if pos[0] > 0:
                out.append((eng.fresh_int(name + '_a', 0, pos[0] - 1),))
                if pos[0] == N - 1:
                    out.append((eng.fresh_int(name + '_b', 0, pos[0] - 1),))
        else:
            if pos[1] > 0:
                out.append((pos[0], eng.fresh_int(name + '_i', 0, pos[1] - 1)))
            if pos[0] > 0:
                out.append((eng.fresh_int(name + '_o', 0, pos[0] - 1),))
        return out
    for i in range(N):
        pv = citations((i,))
        if b is not None and i == b:
            it = ProofItem((i,), 'subproof', prevs=pv, th=th)
            it.subproof = Proof()
            for j in range(M):
                spv = citations((i, j))
                sit = ProofItem((i, j), 'sorry', prevs=spv, th=th)
                it.subproof.items.append(sit)
                objs[(i, j)] = sit
        else:
            it = ProofItem((i,), 'sorry', prevs=pv, th=th)
        st.prf.items.append(it)
        objs[(i,)] = it
    return st, objs


def positions(prf, prefix=()):
    """object id -> position tuple, by traversing the real structure."""
    out = {}
    for i, it in enumerate(prf.items):
        out[id(it)] = prefix + (i,)
        if it.subproof is not None:
            out.update(positions(it.subproof, prefix + (i,)))
    return out


def all_items(prf):
    for it in prf.items:
        yield it
        if it.subproof is not None:
            for s in all_items(it.subproof):
                yield s


def ztuple(idt):
    return tuple(zexpr(c) for c in idt)


def snapshot(prf):
    return [(id(it), tuple(int(c) for c in it.id.id), [ztuple(p.id) for p in it.prevs], it.rule, id(it.th)) for it in all_items(prf)]


def same_snapshot(s1, s2):
    if len(s1) != len(s2):
        return False
    for a, b in zip(s1, s2):
        if a[0] != b[0] or a[1] != b[1] or a[3] != b[3] or a[4] != b[4] or len(a[2]) != len(b[2]):
            return False
        for p, q in zip(a[2], b[2]):
            if len(p) != len(q) or not all(z3.eq(z3.simplify(x), z3.simplify(y)) for x, y in zip(p, q)):
                return False
    return True


OPS_A = ['add', 'remove', 'replace', 'set']


def run_edit_case(N, b, M, op, on_copy, out, twin):
    from kernel.proof import ItemID
    eng = Engine()

    def run(eng):
        if len(out['cex']) >= 6:
            return
        st, objs = mk_state(eng, N, b, M)
        before_cits = [(it, [ztuple(p.id) for p in it.prevs]) for it in all_items(st.prf)]
        last_th = st.prf.items[-1].th
        orig_snap = snapshot(st.prf)
        target = copy(st) if on_copy else st
        if on_copy:
            # citations of the copy denote the copy's objects at the same positions
            tobjs = {pos: o for pos, o in zip([p for p in sorted(objs)], [None] * len(objs))}
            posmap0 = {v: k for k, v in positions(target.prf).items()}
            tobjs = {pos: None for pos in objs}
            for oid, pos in positions(target.prf).items():
                pass
            cur = {}
            for it in all_items(target.prf):
                cur[tuple(int(c) for c in it.id.id)] = it
            work_objs = cur
            work_cits = [(it, [ztuple(p.id) for p in it.prevs]) for it in all_items(target.prf)]
        else:
            work_objs = dict(objs)
            work_cits = before_cits
        try:
            return run_op(eng, st, objs, before_cits, last_th, orig_snap, target, work_objs, work_cits)
        except symx.Infeasible:
            raise
        except Exception as e:
            from kernel.theory import CheckProofException
            from kernel.proof import ProofStateException
            if isinstance(e, (CheckProofException, ProofStateException, AssertionError)):
                # the operation completed with an error: the property only speaks about operations that complete
                out['op_raised'] = out.get('op_raised', 0) + 1
                return
            raise

    def run_op(eng, st, objs, before_cits, last_th, orig_snap, target, work_objs, work_cits):
        # ---- choose the operation's arguments
        nested = b is not None and eng.choice(2) == 1
        lines = M if nested else N
        desc = {'N': N, 'b': b, 'M': M, 'op': op, 'on_copy': on_copy, 'nested': nested}
        removed = None
        replaced_by = None
        if op == 'add':
            k = eng.fresh_int('k_in' if nested else 'k_top', 0, lines - 1)     # before an existing line (the goal line stays last)
            n = eng.fresh_int('n', 1, 3)
            idt = (b, k) if nested else (k,)
            target.add_line_before(idt, n)
            desc['args'] = [symx.zexpr(k), symx.zexpr(n)]
        elif op == 'remove':
            k = eng.choice(lines)
            idt = (b, k) if nested else (k,)
            if (not nested) and b is not None and k == b:
                pass
            # precondition: no remaining line cites the removed line (or a line inside the removed block)
            for it, cs in work_cits:
                pos = tuple(int(c) for c in it.id.id)
                if pos[:len(idt)] == idt:
                    continue
                for c in cs:
                    if len(c) >= len(idt):
                        eng.assume(z3.Not(z3.And([c[j] == idt[j] for j in range(len(idt))])))
            removed = idt
            target.remove_line(idt)
            desc['args'] = [list(idt)]
        elif op == 'replace':
            if lines < 2:
                return
            k = 1 + eng.choice(lines - 1)
            m = eng.choice(k)
            old, new = ((b, k), (b, m)) if nested else ((k,), (m,))
            if (not nested) and b is not None and k == b:
                return     # replacing a block line: its inner lines vanish with it; covered by remove
            removed, replaced_by = old, new
            target.replace_id(ItemID(old), ItemID(new))
            desc['args'] = [list(old), list(new)]
        elif op == 'set':
            k = eng.choice(lines)
            idt = (b, k) if nested else (k,)
            if (not nested) and b is not None and k == b:
                return
            from kernel.thm import Thm
            old_item = work_objs[idt]
            target.set_line(idt, 'sorry', prevs=[p for p in old_item.prevs], th=old_item.th)
            desc['args'] = [list(idt)]
        out['evals'] += 1
        out['keys'].add('%s|%x' % (sorted(desc.items(), key=str), hash(tuple(eng.trace)) & 0xffffffff))

        def fail(kind, why):
            if eng.check() != 'sat':
                raise symx.Infeasible()
            m_ = eng.model()
            d = dict(desc)
            d['args'] = [a if isinstance(a, list) else m_.eval(a, model_completion=True).as_long() for a in desc['args']]
            vals = {nm: m_.eval(v[0], model_completion=True).as_long() for nm, v in eng.vars.items()}
            out['cex'].append({'kind': kind, 'case': d, 'values': vals, 'choices': [e for e in eng.trace if e[0] == 'ch'], 'why': why})
        if twin:
            fail('twin', 'twin')
            return
        # ---- P1: ids = positions
        newpos = positions(target.prf)
        p1 = []
        for it in all_items(target.prf):
            pos = newpos[id(it)]
            idt_ = it.id.id
            if len(idt_) != len(pos):
                return fail('edit-ids', 'line at %s has id of another length' % (pos,))
            p1.append(z3.And([zexpr(c) == p for c, p in zip(idt_, pos)]))
        r, _ = eng.prove(z3.And(p1) if p1 else z3.BoolVal(True))
        if r == 'sat':
            return fail('edit-ids', 'after %s some line carries an id different from its position' % op)
        # ---- P2: every citation denotes the same object as before
        p2 = []
        oldpos_of = {id(o): p for p, o in work_objs.items()}
        for it, cs_before in work_cits:
            if id(it) not in newpos:
                if op == 'set':
                    continue
                continue      # the line itself was removed
            cs_after = [ztuple(p.id) for p in it.prevs]
            if len(cs_after) != len(cs_before):
                return fail('edit-citations', 'number of citations of a line changed')
            for cb, ca in zip(cs_before, cs_after):
                conds = []
                for q, o in work_objs.items():
                    if len(q) != len(cb):
                        continue
                    pre = z3.And([cb[j] == q[j] for j in range(len(q))])
                    tgt = o
                    if removed is not None and q[:len(removed)] == removed:
                        if replaced_by is None or q != removed:
                            continue       # excluded by the precondition
                        tgt = work_objs[replaced_by]
                    if op == 'set' and id(tgt) not in newpos:
                        # the line was replaced by a new item at the same position
                        want = q
                    else:
                        want = newpos.get(id(tgt))
                    if want is None:
                        continue
                    if len(ca) != len(want):
                        conds.append(z3.Not(pre))
                    else:
                        conds.append(z3.Implies(pre, z3.And([ca[j] == want[j] for j in range(len(want))])))
                p2.extend(conds)
        r, _ = eng.prove(z3.And(p2) if p2 else z3.BoolVal(True))
        if r == 'sat':
            return fail('edit-citations', 'after %s a citation no longer denotes the line it denoted before' % op)
        if r != 'unsat':
            out['inconclusive'] += 1
        # ---- P3: last line's sequent unchanged (when the last line was not the one removed)
        if target.prf.items and not (removed is not None and len(removed) == 1 and removed[0] == N - 1):
            now_th = target.prf.items[-1].th
            if now_th is None or not (now_th.prop == last_th.prop and set(now_th.hyps) == set(last_th.hyps)):
                return fail('edit-goal', 'last line changed to %s' % now_th)
        # ---- P4: the original of a copied state is untouched
        if on_copy and not same_snapshot(orig_snap, snapshot(st.prf)):
            return fail('edit-copy', 'editing a copy (%s) changed the original state' % op)
    done = eng.explore(run, max_paths=200000)
    if not done:
        eng.stats.__dict__['budget_cut'] = 1
    return eng.stats


def replay_edit(c):
    """Concrete re-run: rebuild the skeleton with the model's citation values (replaying the recorded choices) and re-judge."""
    out = {'evals': 0, 'keys': set(), 'cex': [], 'inconclusive': 0}
    d = c['case']
    # Run the same case again restricted to the recorded values: assume each variable equals its model value.
    vals = c['values']
    eng_stats = None
    from props import c13 as me
    saved = Engine.explore

    def run_restricted():
        return run_edit_case_with_values(d['N'], d['b'], d['M'], d['op'], d['on_copy'], out, vals)
    run_restricted()
    for x in out['cex']:
        if x['kind'] == c['kind']:
            return True, '%s on skeleton N=%s block at %s (M=%s), operation %s %s with citation values %s: %s' % (
                c['kind'], d['N'], d['b'], d['M'], d['op'], d.get('args'), {k: v for k, v in vals.items() if k.startswith('c_')}, x['why'])
    return False, 'not reproduced'


def run_edit_case_with_values(N, b, M, op, on_copy, out, vals):
    """Same harness, but every declared variable is pinned to a given concrete value (so the run is a concrete one
    through the same code, decided by the solver only trivially)."""
    orig_declare = Engine._declare

    def pinned(self, name, mk, lo, hi):
        v = orig_declare(self, name, mk, lo, hi)
        if name in vals:
            self.solver.add(v == vals[name])
        return v
    Engine._declare = pinned
    try:
        run_edit_case(N, b, M, op, on_copy, out, False)
    finally:
        Engine._declare = orig_declare


# ------------------------------------------------------------------ part B: method sequences

GOALS = ['A & B --> B & A', 'A | B --> B | A', 'A --> B --> A', '(A --> B) --> (B --> C) --> A --> C', 'A & (B & C) --> (A & B) & C',
         '~~A --> A', 'A --> A | B', '(A --> B --> C) --> (A & B --> C)', 'A & B --> (A --> C) --> C', '(A --> B) --> A --> B',
         # a repeated assumption (the closing line must still be the goal as stated); conjuncts that are implications (nested blocks next to later gaps)
         'A --> B --> A --> A & B', 'A & C --> (B --> A) & (A & A)']
STEPS = [
    {'method_name': 'cut', 'goal': 'A'},
    {'method_name': 'cut', 'goal': 'B | A'},
    {'method_name': 'cut', 'goal': 'A --> C'},
    {'method_name': 'cut', 'goal': 'A --> B'},
    {'method_name': 'cases', 'case': 'A'},
    {'method_name': 'cases', 'case': 'B'},
    {'method_name': 'introduction'},
    {'method_name': 'apply_backward_step', 'theorem': 'conjI'},
    {'method_name': 'apply_backward_step', 'theorem': 'disjI1'},
    {'method_name': 'apply_backward_step', 'theorem': 'disjI2'},
    {'method_name': 'apply_backward_step', 'theorem': 'conjD1', 'fact': 1},
    {'method_name': 'apply_prev', 'fact': 1},
    {'method_name': 'revert_intro', 'fact': 1},
    # facts that are textually earlier but not visible from the goal: the enclosing line of the gap, a line inside the block of the previous line
    {'method_name': 'apply_prev', 'fact_parent': True},
    {'method_name': 'apply_backward_step', 'theorem': 'conjI', 'fact_in': 1},
    {'method_name': 'apply_prev', 'fact_in': 1},
    {'method_name': 'apply_forward_step', 'theorem': 'conjD1', 'fact_abs': 0},
]
SCOPE_PREFIX = [7, 6, 2, 4, 16]      # conjI, introduction, cut A --> C, cases A, forward conjD1: steps that build nested blocks / facts inside them
SCOPE_LAST = [13, 14, 15]


FO_GOALS = ['(?x. P x) --> (?y. Q y) --> (?x. P x) & (?y. Q y)', '(!x. P x) --> (?y. Q y) --> (?z. P z & Q z)', '(?x. P x & Q x) --> (?x. P x)',
            '(!x. P x --> Q x) --> (?x. P x) --> (?x. Q x)']
FO_STEPS = [
    {'method_name': 'exists_elim', 'fact_abs': 0, 'names': 'a'},
    {'method_name': 'exists_elim', 'fact_abs': 1, 'names': 'b'},
    {'method_name': 'exists_elim', 'fact': 1, 'names': 'c'},
    {'method_name': 'forall_elim', 'fact_abs': 0, 's': 'a'},
    {'method_name': 'forall_elim', 'fact_abs': 0, 's': 'b'},
    {'method_name': 'inst_exists_goal', 's': 'a'},
    {'method_name': 'inst_exists_goal', 's': 'b'},
    {'method_name': 'apply_backward_step', 'theorem': 'conjI'},
    {'method_name': 'introduction'},
    {'method_name': 'cut', 'goal': 'P a'},
    {'method_name': 'apply_prev', 'fact': 1},
]
FO_VARS = {'P': "'a => bool", 'Q': "'a => bool"}


def first_gap(state, last=False):
    gaps = [it for it in all_items(state.prf) if it.rule == 'sorry']
    if not gaps:
        return None
    return gaps[-1] if last else gaps[0]


def check_state(state, goal_th, label):
    """All C13 observations on a state. -> None or (kind, why)"""
    from kernel import theory
    from kernel.report import ProofReport
    from server import server
    from syntax import printer
    from logic import context
    # ids contiguous, citations point to earlier visible lines
    pos = positions(state.prf)
    for it in all_items(state.prf):
        p = pos[id(it)]
        if tuple(it.id.id) != p:
            return 'method-ids', '%s: line at %s has id %s' % (label, p, it.id)
        for c in it.prevs:
            cid = tuple(c.id)
            l = len(cid)
            if l == 0 or l > len(p) or cid[:l - 1] != p[:l - 1] or not cid[l - 1] < p[l - 1]:
                return 'method-citation', '%s: line %s cites %s which is not an earlier visible line' % (label, it.id, c)
    # full re-check with only the open gaps unproved
    try:
        rpt = ProofReport()
        th = theory.check_proof(copy(state.prf), rpt)
    except Exception as e:
        return 'method-recheck', '%s: full re-check fails: %s: %s' % (label, type(e).__name__, str(e)[:120])
    gaps_expected = sorted(str(it.th) for it in all_items(state.prf) if it.rule == 'sorry')
    if sorted(str(g) for g in rpt.gaps) != gaps_expected:
        return 'method-gaps', '%s: re-check reports gaps %s, open gaps %s' % (label, rpt.gaps, gaps_expected)
    # copy isolation probe: insert a line at the top of a *copy* (which renumbers every line and citation of the copy);
    # the state itself must not move -- whatever the methods shared between a state and its copies would show here
    snap = [(str(i.id), i.rule, [str(q) for q in i.prevs], str(i.th), str(i.args)) for i in all_items(state.prf)]
    try:
        c2 = copy(state)
        c2.add_line_before(ItemID_((0,)), 1)
    except Exception:
        pass
    now = [(str(i.id), i.rule, [str(q) for q in i.prevs], str(i.th), str(i.args)) for i in all_items(state.prf)]
    if now != snap:
        diff = [(a, b_) for a, b_ in zip(snap, now) if a != b_][:1]
        return 'method-copy', '%s: renumbering a copy of the state (a line inserted at the top) changed the state itself: %s' % (label, diff)
    last = state.prf.items[-1].th
    if last is None or last.prop != goal_th.prop or set(last.hyps) != set(goal_th.hyps):
        return 'method-goal', '%s: last line is %s, original goal %s' % (label, last, goal_th)
    if not gaps_expected:
        try:
            theory.check_proof(copy(state.prf), no_gaps=True)
        except Exception as e:
            return 'method-nogaps', '%s: no gap left but check_proof(no_gaps=True) fails: %s' % (label, e)
    # export -> parse_proof
    try:
        exported = state.export_proof()
        ctx_vars = dict(context.ctxt.vars)
        st2 = server.parse_proof(exported)
        lines1 = [(str(i.id), i.rule, [str(p) for p in i.prevs], str(i.th), printer.print_str_args(i.rule, i.args, i.th)) for i in all_items(state.prf)]
        lines2 = [(str(i.id), i.rule, [str(p) for p in i.prevs], str(i.th), printer.print_str_args(i.rule, i.args, i.th)) for i in all_items(st2.prf)]
        if lines1 != lines2:
            diff = [(a, b_) for a, b_ in zip(lines1, lines2) if a != b_][:1]
            return 'method-roundtrip', '%s: export/parse_proof changes the lines: %s' % (label, diff)
        if sorted(str(g) for g in st2.rpt.gaps) != gaps_expected:
            return 'method-roundtrip', '%s: re-imported proof checks to different gaps' % label
    except Exception as e:
        return 'method-roundtrip', '%s: export/parse_proof fails: %s: %s' % (label, type(e).__name__, str(e)[:120])
    return None


def run_sequence(goal, seq, on_copy_at, fo=False, lastgap=()):
    """-> (kind, why) or None; seq: list of indices into STEPS; on_copy_at: index of the step applied to a copy (or None)."""
    from logic import context
    from server import server, method
    from syntax import parser
    from kernel.term import Implies
    STEPS_ = FO_STEPS if fo else STEPS
    ctx_vars = FO_VARS if fo else {'A': 'bool', 'B': 'bool', 'C': 'bool'}
    context.set_context('logic_base', vars=ctx_vars)
    state = server.parse_init_state(parser.parse_term(goal))
    from kernel.thm import Thm
    goal_th = Thm(parser.parse_term(goal))          # the goal as stated, not as the initial state records it
    bad = check_state(state, goal_th, 'initial state')
    if bad:
        return bad
    applied = []
    for n, si in enumerate(seq):
        gap = first_gap(state, last=(n in lastgap))      # steps listed in lastgap work on the last open gap instead of the first
        if gap is None:
            break
        step = dict(STEPS_[si])
        step['goal_id'] = str(gap.id)
        if 'fact_abs' in step:
            step['fact_ids'] = [str(step.pop('fact_abs'))]
        if 'fact' in step:
            k = step.pop('fact')
            # use the k-th line before the gap at top level as the fact, if any
            gp = tuple(gap.id.id)
            if gp[-1] - k < 0:
                continue
            step['fact_ids'] = [str(ItemID_(gp[:-1] + (gp[-1] - k,)))]
        if 'fact_parent' in step:
            step.pop('fact_parent')
            gp = tuple(gap.id.id)
            if len(gp) < 2:
                continue
            step['fact_ids'] = [str(ItemID_(gp[:-1]))]
        if 'fact_in' in step:
            k = step.pop('fact_in')
            gp = tuple(gap.id.id)
            if gp[-1] - k < 0:
                continue
            step['fact_ids'] = [str(ItemID_(gp[:-1] + (gp[-1] - k, 1)))]
        target = state
        snap = None
        if on_copy_at == n:
            snap = [(str(i.id), i.rule, [str(p) for p in i.prevs], str(i.th), str(i.args)) for i in all_items(state.prf)]
            target = copy(state)
        try:
            method.apply_method(target, step)
        except Exception:
            # a method that does not apply must leave the state it was applied to checkable; it completes with an error, so nothing is claimed
            continue
        applied.append(step['method_name'])
        if snap is not None:
            now = [(str(i.id), i.rule, [str(p) for p in i.prevs], str(i.th), str(i.args)) for i in all_items(state.prf)]
            if now != snap:
                diff = [(a, b_) for a, b_ in zip(snap, now) if a != b_][:1]
                return 'method-copy', 'applying %s to a copy changed the original state: %s' % (step['method_name'], diff)
            badc = check_state(state, goal_th, 'original after editing a copy')
            if badc:
                return 'method-copy', badc[1]
        bad = check_state(target, goal_th, 'after %s' % '; '.join(applied))
        if bad:
            return bad
        state = target
    return None


def ItemID_(t):
    from kernel.proof import ItemID
    return ItemID(tuple(t))


def run_methods(u, out, twin):
    _, tier, gi = u[:3]
    fo = len(u) > 3 and u[3] == 'fo'
    L = 3
    goal = (FO_GOALS if fo else GOALS)[gi]
    STEPS_ = FO_STEPS if fo else STEPS
    for l in range(1, L + 1):
        seqs = list(itertools.product(range(len(STEPS_)), repeat=l))
        if l == 3 and tier == 'quick':
            # quick: all sequences of length <= 2, plus a seeded sample of the length-3 sequences, plus (propositional goals) every
            # sequence "two block-building steps, then a step citing a fact that is earlier in the text but out of scope"
            seqs = random.Random('c13m-%s-%s' % (gi, fo)).sample(seqs, min(len(seqs), 160))
            if not fo:
                seqs += [(a, b, c) for a in SCOPE_PREFIX for b in SCOPE_PREFIX for c in SCOPE_LAST if (a, b, c) not in seqs]
        for seq in seqs:
            # (copy position, steps working on the last gap): with two steps also the orders "later gap first, then the earlier one"
            variants = [(None, ()), (l - 1, ())]
            if l == 2:
                variants += [(None, (0,)), (1, (0,))]
            for cp, lastgap in variants:
                out['evals'] += 1
                out['keys'].add('m|%d|%s|%s|%s' % (gi, seq, cp, lastgap))
                if twin:
                    if l == 1 and cp is None:
                        out['cex'].append({'kind': 'twin', 'goal': gi, 'seq': list(seq)})
                    continue
                try:
                    bad = run_sequence(goal, seq, cp, fo, lastgap)
                except Exception as e:
                    bad = None
                    out.setdefault('errors', []).append('sequence %s on %s crashed the harness: %r' % (seq, goal, e))
                if bad:
                    out['cex'].append({'kind': bad[0], 'goal': gi, 'fo': fo, 'seq': list(seq), 'copy_at': cp, 'lastgap': list(lastgap), 'why': bad[1], 'sig': '%s|%s|%d|%s' % (bad[0], fo, gi, bad[1][:80])})
                    if len(out['cex']) >= 10:
                        return
    out['samples'].append({'goal': goal, 'sequence': [STEPS_[i]['method_name'] for i in seq]})


# ------------------------------------------------------------------ part C: the IDE's per-proof cache of states (app/ide.py)

def proof_cache_class():
    """The ProofCache class of app/ide.py, compiled from the current source on its own (the Flask application around it does not
    import in this sandbox): its stored states are the history the user steps through."""
    import ast
    import copy as _copy
    import traceback
    import types
    from logic import context
    from server import server
    repo = os.environ.get('HOLPY_REPO', '/repo')
    tree = ast.parse(open(os.path.join(repo, 'app', 'ide.py')).read())
    cls = [n for n in tree.body if isinstance(n, ast.ClassDef) and n.name == 'ProofCache']
    if not cls:
        return None
    ns = {'copy': _copy, 'context': context, 'server': server, 'traceback2': types.SimpleNamespace(format_exc=traceback.format_exc)}
    exec(compile(ast.Module(body=cls, type_ignores=[]), 'app/ide.py', 'exec'), ns)
    return ns['ProofCache']


def concrete_step(state, si):
    """STEPS[si] made concrete for the first gap of state (goal id, fact ids) -> dict or None"""
    gap = first_gap(state)
    if gap is None:
        return None
    step = dict(STEPS[si])
    step['goal_id'] = str(gap.id)
    gp = tuple(gap.id.id)
    if 'fact_abs' in step:
        step['fact_ids'] = [str(step.pop('fact_abs'))]
    if 'fact' in step:
        k = step.pop('fact')
        if gp[-1] - k < 0:
            return None
        step['fact_ids'] = [str(ItemID_(gp[:-1] + (gp[-1] - k,)))]
    if 'fact_parent' in step or 'fact_in' in step:
        return None
    return step


def lines_of(state):
    return [(str(i.id), i.rule, [str(q) for q in i.prevs], str(i.th), str(i.args)) for i in all_items(state.prf)]


def run_cache(u, out, twin):
    """create_cache(steps) then insert_step(index, step): every stored state k must be the state reached by the first k steps."""
    from logic import context
    from server import server, method
    from syntax import parser
    _, tier, gi = u
    PC = proof_cache_class()
    if PC is None:
        out.setdefault('errors', []).append('class ProofCache not found in app/ide.py')
        return
    goal = GOALS[gi]
    ctx_vars = {'A': 'bool', 'B': 'bool', 'C': 'bool'}
    base = [2, 4, 6, 7, 8, 10, 11]         # cut, cases, introduction, conjI, disjI1, conjD1 with a fact, apply_prev

    def fresh(steps):
        context.set_context('logic_base', vars=ctx_vars)
        st = server.parse_init_state(parser.parse_term(goal))
        states = [lines_of(st)]
        for sp in steps:
            st.parse_steps([sp])
            states.append(lines_of(st))
        return st, states
    for seq in itertools.product(base, repeat=2):
        # concrete recorded steps
        st, _ = fresh([])
        steps = []
        for si in seq:
            sp = concrete_step(st, si)
            if sp is None:
                break
            try:
                method.apply_method(st, sp)
            except Exception:
                break
            steps.append(sp)
        if not steps:
            continue
        for idx in range(len(steps) + 1):
            st_i, _ = fresh(steps[:idx])
            for ti in base:
                new = concrete_step(st_i, ti)
                if new is None:
                    continue
                out['evals'] += 1
                out['keys'].add('cache|%d|%s|%d|%d' % (gi, seq, idx, ti))
                if twin:
                    if not out['cex']:
                        out['cex'].append({'kind': 'twin', 'goal': gi})
                    continue
                pc = PC()
                try:
                    pc.create_cache({'username': 'master', 'theory_name': 'logic_base', 'thm_name': '', 'vars': dict(ctx_vars), 'prop': parser.parse_term(goal), 'steps': [dict(x) for x in steps]})
                    before = [lines_of(x) for x in pc.states]
                    _, ref0 = fresh(steps)
                    if before != ref0:
                        out['cex'].append({'kind': 'cache-states', 'goal': gi, 'seq': list(seq), 'idx': -1, 'ti': ti, 'why': 'create_cache: stored states differ from replaying the steps'})
                        continue
                    pc.insert_step(idx, dict(new))
                    got = [lines_of(x) for x in pc.states]
                    _, ref = fresh(steps[:idx] + [new] + steps[idx:])
                except Exception as e:
                    continue        # completes with an error: nothing claimed
                if got != ref:
                    k = [j for j in range(min(len(got), len(ref))) if got[j] != ref[j]]
                    out['cex'].append({'kind': 'cache-states', 'goal': gi, 'seq': list(seq), 'idx': idx, 'ti': ti,
                                       'why': 'goal %s, recorded steps %s, insert_step(%d, %s): stored state %s is not the state after the first %s steps (%d states stored, %d expected)' % (
                                           goal, steps, idx, new, k[:1], k[:1], len(got), len(ref))})
                    if len(out['cex']) >= 6:
                        return
    out['samples'].append({'cache_goal': goal})


# ------------------------------------------------------------------ units / replay

def units(tier, seed):
    us = []
    for N in ((3, 4, 5) if tier == 'quick' else (3, 4, 5, 6)):
        for b in [None] + list(range(N)):
            for M in (((2, 3) if tier == 'quick' else (2, 3, 4)) if b is not None else (0,)):
                for op in OPS_A:
                    for on_copy in (False, True):
                        if False:
                            continue
                        us.append(('edit', N, b, M, op, on_copy))
    for gi in range(len(GOALS)):
        us.append(('methods', tier, gi))
    for gi in range(len(FO_GOALS)):
        us.append(('methods', tier, gi, 'fo'))
    for gi in range(len(GOALS)):
        us.append(('cache', tier, gi))
    random.Random(seed).shuffle(us)
    us.sort(key=lambda u: 0 if u[0] == 'methods' else 1)
    return us


def run_unit(u):
    out = {'evals': 0, 'keys': set(), 'cex': [], 'samples': [], 'inconclusive': 0, 'stats': {}}
    twin = bool(os.environ.get('VERIF_TWIN'))
    if u[0] == 'edit':
        _, N, b, M, op, on_copy = u
        st = run_edit_case(N, b, M, op, on_copy, out, twin)
        out['stats'] = st.as_dict()
        out['stats']['operations_that_raised'] = out.pop('op_raised', 0)
        out['samples'].append({'skeleton': {'top_level': N, 'block_at': b, 'block_lines': M}, 'operation': op, 'on_copy': on_copy, 'citations': 'symbolic'})
    elif u[0] == 'cache':
        run_cache(u, out, twin)
    else:
        run_methods(u, out, twin)
    out['keys'] = list(out['keys'])
    return out


def replay(c):
    if c['kind'] == 'twin':
        return True, 'twin'
    if c['kind'].startswith('edit-'):
        return replay_edit(c)
    if c['kind'] == 'cache-states':
        out = {'evals': 0, 'keys': set(), 'cex': [], 'samples': [], 'inconclusive': 0, 'stats': {}}
        run_cache(('cache', 'quick', c['goal']), out, False)
        m = [x for x in out['cex'] if x['seq'] == c['seq'] and x['idx'] == c['idx'] and x['ti'] == c['ti']]
        return bool(m), (m[0]['why'] if m else 'not reproduced')
    fo = c.get('fo', False)
    G, S_ = (FO_GOALS, FO_STEPS) if fo else (GOALS, STEPS)
    bad = run_sequence(G[c['goal']], c['seq'], c.get('copy_at'), fo, tuple(c.get('lastgap', ())))
    return (bad is not None and bad[0] == c['kind']), 'goal %s, steps %s (applied to a copy at step %s): %s' % (G[c['goal']], [S_[i] for i in c['seq']], c.get('copy_at'), bad)
