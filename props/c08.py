"""C08 -- type inference returns only well-typed, fully determined terms.

Inputs (E): well-typed terms over the `nat` theory (overloaded arithmetic, polymorphic constants equals/IF/all/exists,
higher-order variables, nested binders).  Every annotation site (variable, constant, binder) carries an erasure bit; all
2^k masks are enumerated (k <= 9; larger terms: seeded masks).  Variable types are declared in the context or not.  Plus
ill-typed skeletons (occurs-check cycles, clashing uses of one variable).
Oracle (structural, independent): infertype.type_infer either raises TypeInferenceException, or returns a term that
type-checks (checked_get_type and an independent checker), has the same shape, keeps every given annotation and every
declared variable type, gives all occurrences of a variable one type, uses each constant at an instance of its declared
type (Type.match), has no internal `_tN` variables left; on erasures of a well-typed term with declared variables the
result is exactly the original (always when constant and binder types were kept).  Any other exception class violates
"fails with its own error".
"""
import itertools
import os
import random

PID = 'C08'
LEVEL = 'exploration'
LEVEL_TEXT = ('Bounded-exhaustive exploration: every erasure mask of every term of an enumerated family is pushed through the real type_infer and judged by structural oracles '
              'written independently of the unifier. Inference is driven by names and structure only; no scalar input can be made symbolic, so the level is exploration.')
LEVEL_NOTE = 'trusts the independent type checker and Type.match; term family and mask sampling beyond the stated bound are outside the claim'
TECHNIQUE = 'bounded-exhaustive erasure masks through the real type inference + independent structural oracles'
FUNCTIONS = ['syntax.infertype:type_infer (new_type/union/unify/infer, final substitution loop)', 'logic.context:Context / fresh_context', 'kernel.theory:Theory.get_term_sig']
ASSUMPTIONS = ['theory nat; variables x y: nat, p: bool, a: \'a, f: nat=>nat, g: \'a=>nat, h: (nat=>nat)=>nat, q: nat=>bool',
               'an erasure sets the type of a Var / Const / binder to None; all masks for terms with <= 9 sites, 256 seeded masks otherwise']
RULE = ('one evaluation = one (term, erasure mask, declared-or-not) skeleton; distinct = distinct skeletons; non-trivial = inference returned a term (judged) '
        'or the skeleton is the erasure of a declared-variable term (recovery obligation)')
EXPLANATION = 'see LEVEL_TEXT'
BUDGET_S = {'quick': 240, 'thorough': 900}


def bounds(tier):
    return {'terms': len(terms()), 'generated_terms': '%d seeded well-typed terms of depth <= 3 (type-directed grammar)' % (100 if tier == 'quick' else 400), 'max_sites_exhaustive': 9, 'seeded_masks_for_larger_terms': 256 if tier == 'quick' else 2048, 'illtyped_skeletons': len(ill_skeletons()), 'mutated_skeletons': '%d seeded (one leaf of a generated term replaced by a declared variable, all types erased)' % (4000 if tier == 'quick' else 40000)}


def setup(tier, seed):
    from data import nat  # noqa
    from logic import basic
    basic.load_theory('nat')


_T = {}
DECL = {}


def terms():
    if 'terms' in _T:
        return _T['terms']
    from kernel.type import NatType, BoolType, TVar, TFun
    from kernel.term import Var, Const, Eq, Forall, Exists, Lambda, And, Or, Implies, Not, Nat, Comb, Abs, Bound
    from kernel import term as T
    A = TVar('a')
    x, y, p, a = Var('x', NatType), Var('y', NatType), Var('p', BoolType), Var('a', A)
    f, g = Var('f', TFun(NatType, NatType)), Var('g', TFun(A, NatType))
    h, q = Var('h', TFun(TFun(NatType, NatType), NatType)), Var('q', TFun(NatType, BoolType))
    z, u, F = Var('z', NatType), Var('u', A), Var('F', TFun(NatType, NatType))
    IF = lambda c, s, t: Const('IF', TFun(BoolType, s.get_type(), s.get_type(), s.get_type()))(c, s, t)
    Suc = Const('Suc', TFun(NatType, NatType))
    DECL.update({'x': NatType, 'y': NatType, 'p': BoolType, 'a': A, 'f': f.T, 'g': g.T, 'h': h.T, 'q': q.T})
    ts = [x + y, x + Nat(1), f(x) + y, Eq(x, y), Eq(a, a), IF(p, x, y), Forall(z, Eq(z + x, x + z)), Exists(u, Eq(g(u), x)), Lambda(z, f(z)), h(Lambda(z, z + x)),
          And(x < y, p), Eq(g(a), Nat(0)), Eq(Comb(Lambda(u, u), a), a), Forall(F, Eq(F(x), F(x))), Suc(x), Eq(x * y, y * x), q(x), Forall(z, Implies(q(z), q(z + Nat(1)))),
          Eq(h(f), x), Lambda(z, Lambda(u, g(u) + z)), Eq(Nat(0), Nat(0)), Eq(IF(p, a, a), a), Exists(z, And(q(z), z <= x)), Eq(Lambda(z, z), Lambda(z, z + Nat(0))),
          Forall(u, Eq(u, u)), Not(Eq(f(x), Nat(2))), Or(p, Eq(x, Nat(0))), Eq(f(f(x)), x), h(Lambda(z, f(z) * Nat(2))), Eq(x - y + y, x)]
    # nested binders whose types are fixed only by later uses (the final substitution has to resolve chains of internal variables)
    xf, hh, cN = Var('xf', TFun(NatType, BoolType)), Var('hh', TFun(TFun(NatType, BoolType), BoolType)), Var('cN', NatType)
    G2 = Var('G2', TFun(TFun(NatType, NatType), NatType))
    DECL['cN'] = NatType
    ts += [Lambda(xf, Lambda(hh, And(hh(xf), xf(cN)))), Lambda(hh, Lambda(xf, And(hh(xf), xf(cN)))), Forall(F, Exists(G2, Eq(G2(F), F(cN)))),
           Lambda(xf, Lambda(hh, Lambda(z, And(hh(xf), xf(z + cN))))), Exists(xf, Forall(hh, Implies(hh(xf), xf(Nat(0))))), Lambda(F, Lambda(G2, Lambda(z, Eq(G2(F) + z, F(z)))))]
    # a declared free variable under a binder of the same name and another type (never produced by the parser, but a legal term)
    zero = Nat(0)
    ab = lambda nm, v, body: Abs(nm, v.T, body.abstract_over(v))
    hb, hn = Var('hb_', BoolType), Var('hn_', NatType)
    ts += [ab('x', hb, Implies(hb, Eq(x, zero))), ab('x', hn, ab('x', hb, And(hb, Eq(hn + x, y)))),
           Forall(p, Eq(x, x)).fun(ab('y', hb, Implies(hb, y < x))), ab('p', hn, And(p, Eq(hn, x)))]
    # schematic variables (declared and undeclared alike must get one type for all occurrences)
    from kernel.term import SVar
    sp, sn = SVar('sp', BoolType), SVar('sn', NatType)
    ts += [And(sp, Eq(sn, Nat(0))), Eq(sn + x, x + sn), Implies(sp, And(sp, q(sn))), Forall(z, Eq(z + sn, sn + z)), And(Eq(sn, Nat(0)), x < sn)]
    # binder stacks: nested annotated binders whose types repeat non-adjacently, a closed inner abstraction as an argument, and
    # the outer bound variables used after the inner binder has been closed (the binder context must be restored exactly)
    tys = (NatType, BoolType)
    k = 0
    for T1 in tys:
        for T2 in tys:
            for T3 in tys:
                bx, by, bz, bw = Var('bx_', T1), Var('by_', T2), Var('bz_', T3), Var('bw_', T1)
                for deep in (False, True):
                    inner = ab('z', bz, ab('w', bw, bz)) if deep else ab('z', bz, bz)
                    G = Var('Gs%d' % k, TFun(inner.get_type(), T1, T2, NatType))
                    DECL[G.name] = G.T
                    k += 1
                    ts.append(ab('x', bx, ab('y', by, G(inner, bx, by))))
                    if not deep:
                        H = Var('Hs%d' % k, TFun(T2, inner.get_type(), T1, T2, BoolType))
                        DECL[H.name] = H.T
                        ts.append(ab('x', bx, ab('y', by, H(by, inner, bx, by))))
    ts += [q(Suc(x)), x < Suc(y), Lambda(z, Suc(z) + x), And(sp, q(Suc(sn)))]
    _T['terms'] = ts
    return ts


def sites(t):
    """Annotation sites in traversal order: paths to Var / Const / Abs nodes."""
    out = []

    def rec(u, path):
        if u.is_var() or u.is_const():
            out.append(path)
        elif u.is_comb():
            rec(u.fun, path + (0,))
            rec(u.arg, path + (1,))
        elif u.is_abs():
            out.append(path)
            rec(u.body, path + (2,))
    rec(t, ())
    return out


def erase(t, mask_paths):
    """Fresh copy of t with the types at the given site paths set to None."""
    from kernel.term import Var, SVar, Const, Comb, Abs, Bound

    def rec(u, path):
        if u.is_var():
            return Var(u.name, None if path in mask_paths else u.T)
        if u.is_svar():
            return SVar(u.name, None if path in mask_paths else u.T)
        if u.is_const():
            return Const(u.name, None if path in mask_paths else u.T)
        if u.is_comb():
            return Comb(rec(u.fun, path + (0,)), rec(u.arg, path + (1,)))
        if u.is_abs():
            return Abs(u.var_name, None if path in mask_paths else u.var_T, rec(u.body, path + (2,)))
        return Bound(u.n)
    return rec(t, ())


def node_at(t, path):
    for k in path:
        t = t.fun if k == 0 else (t.arg if k == 1 else t.body)
    return t


def shape(t):
    if t.is_var():
        return ('V', t.name)
    if t.is_svar():
        return ('S', t.name)
    if t.is_const():
        return ('C', t.name)
    if t.is_bound():
        return ('B', t.n)
    if t.is_abs():
        return ('A', shape(t.body))
    return ('@', shape(t.fun), shape(t.arg))


def ind_type(t, env=()):
    from kernel.type import TFun
    if t.is_var() or t.is_svar() or t.is_const():
        return t.T
    if t.is_bound():
        return env[t.n] if t.n < len(env) else None
    if t.is_abs():
        if t.var_T is None:
            return None
        b = ind_type(t.body, (t.var_T,) + env)
        return None if b is None else TFun(t.var_T, b)
    fT, aT = ind_type(t.fun, env), ind_type(t.arg, env)
    if fT is None or aT is None or not fT.is_fun() or fT.args[0] != aT:
        return None
    return fT.args[1]


def all_types(t):
    out = []

    def rec(u):
        if u.is_var() or u.is_svar() or u.is_const():
            out.append(u.T)
        elif u.is_comb():
            rec(u.fun)
            rec(u.arg)
        elif u.is_abs():
            out.append(u.var_T)
            rec(u.body)
    rec(t)
    return out


def mentions_internal(T):
    if T is None:
        return True
    if T.is_stvar():
        return T.name.startswith('_t')
    if T.is_tconst():
        return any(mentions_internal(a) for a in T.args)
    return False


def judge(orig, masked, declared):
    """-> (kind or None, detail, judged)"""
    from syntax import infertype
    from syntax.infertype import TypeInferenceException
    from logic import context
    from kernel import theory
    from kernel.type import TypeMatchException
    sk = erase(orig, masked)
    vars_ctx = dict(DECL) if declared else {}
    extra = {}
    if declared == 'adverse':
        # a context that disagrees with what the skeleton still says: schematic variables declared at another type than their kept
        # annotation, and context definitions for names that are constants of the theory (the annotation / the theory signature win)
        from kernel.type import NatType, BoolType, TFun
        extra = {'svars': {v.name: (NatType if v.T == BoolType else BoolType) for v in orig.get_svars()},
                 'defs': {'Suc': TFun(BoolType, BoolType)}}     # (the head of the left side of a top-level equation is resolved through defs by design: Suc never stands there)
    with context.fresh_context(vars=vars_ctx, **extra):
        try:
            res = infertype.type_infer(sk)
        except TypeInferenceException:
            # allowed: "under-determined" -- except when only variable types were erased and they are declared
            def recoverable(n):
                # declared variables, and constants whose theory signature has no type variables, lose nothing when erased
                if n.is_var():
                    return True
                if n.is_const() and not n.is_abs():
                    try:
                        sig = theory.thy.get_term_sig(n.name)
                        return not sig.get_tvars() and not sig.get_stvars()
                    except Exception:
                        return False
                return False
            only_vars = all(recoverable(node_at(orig, p)) for p in masked)
            if declared and only_vars:
                return 'infer-no-recovery', 'only types of declared variables and of monomorphic constants were erased from %r (sites %s), but inference fails' % (orig, sorted(masked)), True
            return None, 'own error', False
        except Exception as e:
            return 'infer-exception', 'type_infer on the erasure %s of %r raised %s: %s' % (sorted(masked), orig, type(e).__name__, str(e)[:80]), True
    if shape(res) != shape(orig):
        return 'infer-shape', 'result %r has another shape than %r' % (res, orig), True
    if any(mentions_internal(T) for T in all_types(res)):
        return 'infer-internal', 'result %r still contains internal or missing types' % res, True
    it = ind_type(res)
    try:
        ct = res.checked_get_type()
    except Exception:
        ct = None
    if it is None or ct is None or it != ct:
        return 'infer-illtyped', 'result %r of inferring %r (erased %s) does not type-check' % (res, orig, sorted(masked)), True
    var_types = {}
    for p in sites(orig):
        o, r = node_at(orig, p), node_at(res, p)
        oT = o.var_T if o.is_abs() else o.T
        rT = r.var_T if r.is_abs() else r.T
        if p not in masked and rT != oT:
            return 'infer-annotation', 'annotation %s at %s of %r was changed to %s' % (oT, p, orig, rT), True
        if r.is_var():
            if declared and r.name in DECL and rT != DECL[r.name]:
                return 'infer-declared', 'declared variable %s :: %s got type %s' % (r.name, DECL[r.name], rT), True
            if var_types.setdefault(r.name, rT) != rT:
                return 'infer-var-types', 'variable %s occurs at types %s and %s in %r' % (r.name, var_types[r.name], rT, res), True
        if r.is_const():
            try:
                theory.thy.get_term_sig(r.name, stvar=True).match(rT)
            except TypeMatchException:
                return 'infer-const-instance', 'constant %s :: %s is not an instance of its declared type' % (r.name, rT), True
    if declared and res != orig:
        # variables declared: the original must be recovered, or the failure reported
        return 'infer-other-term', 'erasing %s from %r with declared variables infers the different term %r' % (sorted(masked), orig, res), True
    return None, 'fine', True


def ill_skeletons():
    from kernel.type import NatType, BoolType, TFun
    from kernel.term import Var, Comb, Abs, Bound, Const, Eq
    x = lambda T=None: Var('x', T)
    f = Var('f', TFun(NatType, NatType))
    p = Var('p', BoolType)
    from kernel.type import TVar
    extra = []
    # occurs-check cycles closing through n unifications: v0 v1 & v1 v2 & ... & v(n-1) v0, bare / under a predicate / with bound variables
    conj = lambda a, b: Comb(Comb(Const('conj', None), a), b)
    P = Var('P', TFun(NatType, BoolType))
    for n in (1, 2, 3, 4, 5):
        for wrap in ('bare', 'pred', 'bound'):
            if wrap == 'bound':
                app = [Comb(Bound(n - 1 - i), Bound(n - 1 - (i + 1) % n)) for i in range(n)]
            else:
                vs = [Var('v%d' % i, None) for i in range(n)]
                app = [Comb(Var('v%d' % i, None), Var('v%d' % ((i + 1) % n), None)) for i in range(n)]
            if wrap == 'pred':
                app = [Comb(P, a) for a in app]
            body = app[0]
            for a in app[1:]:
                body = conj(body, a)
            if wrap == 'bound':
                for i in range(n):
                    body = Abs('b%d' % (n - 1 - i), None, body)
            extra.append(body)
    # clashes between distinct concrete types (including distinct type variables) at annotated variables
    A, B = TVar('a'), TVar('b')
    Ts = [NatType, BoolType, A, B, TFun(NatType, NatType), TFun(A, A), TFun(A, B)]
    for T1 in Ts:
        for T2 in Ts:
            if T1 != T2:
                extra.append(Comb(Comb(Const('equals', None), Var('u', T1)), Var('v', T2)))
                extra.append(Comb(Var('F', TFun(T1, BoolType)), Var('v', T2)))
                extra.append(Comb(Abs('z', T1, Bound(0)), Var('v', T2)))
                extra.append(Comb(Abs('z', None, Comb(Comb(Const('equals', None), Bound(0)), Var('u', T1))), Var('v', T2)))
    # one undeclared schematic / ordinary variable used at two different types
    from kernel.term import SVar
    zero = Const('zero', NatType)
    for mkv in (lambda: SVar('u', None), lambda: Var('u', None)):
        extra.append(conj(mkv(), Comb(Comb(Const('equals', None), mkv()), zero)))
        extra.append(conj(Comb(P, mkv()), mkv()))
        extra.append(Comb(Comb(Const('equals', None), Comb(Var('f', TFun(NatType, NatType)), mkv())), Comb(mkv(), zero)))
        extra.append(Abs('z', None, conj(Comb(Comb(Const('equals', None), mkv()), Bound(0)), Comb(Comb(Const('conj', None), mkv()), Bound(0)))))
    # under-determined: undeclared schematic variables whose type nothing fixes -- must be reported, not returned with internal type variables
    imp = lambda a, b: Comb(Comb(Const('implies', None), a), b)
    pB = Var('p', BoolType)
    extra += [imp(Comb(SVar('F', None), SVar('X', None)), pB), imp(Comb(Comb(SVar('G', None), SVar('Y', None)), zero), pB), Abs('n', NatType, Comb(Comb(SVar('H', None), Bound(0)), SVar('Z', None))),
              Comb(Comb(Const('equals', None), SVar('A', None)), SVar('A', None)), imp(Comb(Var('k', None), Var('l', None)), pB)]
    return extra + [Comb(x(), x()), Abs('z', None, Comb(Bound(0), Bound(0))), Comb(f, p), Comb(Comb(Const('plus', None), p), Var('y', NatType)),
            Comb(Var('x', NatType), Var('x', BoolType)), Comb(Comb(Const('equals', None), Var('w', None)), Comb(Var('w', None), Var('y', NatType))), Comb(Const('Suc', None), p),
            Comb(Comb(Const('equals', None), f), p), Comb(Abs('z', NatType, Bound(0)), p)]


def gen_term(rnd, depth=3):
    """A random well-typed closed-under-DECL term (type-directed) over x y :: nat, p :: bool, a :: 'a, f g h q and the nat signature."""
    from kernel.type import NatType, BoolType, TVar, TFun
    from kernel.term import Var, Const, Eq, Forall, Exists, Lambda, And, Or, Implies, Not, Nat, Comb
    A = TVar('a')
    x, y, p, a = Var('x', NatType), Var('y', NatType), Var('p', BoolType), Var('a', A)
    f, g, q = Var('f', TFun(NatType, NatType)), Var('g', TFun(A, NatType)), Var('q', TFun(NatType, BoolType))
    IF = lambda c, s_, t_: Const('IF', TFun(BoolType, s_.get_type(), s_.get_type(), s_.get_type()))(c, s_, t_)
    cnt = [0]

    def fresh(T):
        cnt[0] += 1
        return Var('v%d' % cnt[0], T)

    def gen(T, d, env):
        leaves = {NatType: [x, y, Nat(0), Nat(2)], BoolType: [p], A: [a]}[T] + [v for v in env if v.T == T]
        if d == 0 or rnd.random() < 0.2:
            return rnd.choice(leaves)
        if T == BoolType:
            k = rnd.choice(['eqn', 'eqa', 'less', 'and', 'or', 'imp', 'not', 'q', 'all', 'ex', 'exa'])
            if k == 'eqn':
                return Eq(gen(NatType, d - 1, env), gen(NatType, d - 1, env))
            if k == 'eqa':
                return Eq(gen(A, d - 1, env), gen(A, d - 1, env))
            if k == 'less':
                return gen(NatType, d - 1, env) < gen(NatType, d - 1, env)
            if k in ('and', 'or', 'imp'):
                return {'and': And, 'or': Or, 'imp': Implies}[k](gen(BoolType, d - 1, env), gen(BoolType, d - 1, env))
            if k == 'not':
                return Not(gen(BoolType, d - 1, env))
            if k == 'q':
                return q(gen(NatType, d - 1, env))
            v = fresh(A if k == 'exa' else NatType)
            return (Forall if k == 'all' else Exists)(v, gen(BoolType, d - 1, env + [v]))
        if T == NatType:
            k = rnd.choice(['plus', 'times', 'minus', 'f', 'g', 'if', 'beta'])
            if k in ('plus', 'times', 'minus'):
                l, r = gen(NatType, d - 1, env), gen(NatType, d - 1, env)
                return l + r if k == 'plus' else l * r if k == 'times' else l - r
            if k == 'f':
                return f(gen(NatType, d - 1, env))
            if k == 'g':
                return g(gen(A, d - 1, env))
            if k == 'if':
                return IF(gen(BoolType, d - 1, env), gen(NatType, d - 1, env), gen(NatType, d - 1, env))
            v = fresh(NatType)
            return Comb(Lambda(v, gen(NatType, d - 1, env + [v])), gen(NatType, d - 1, env))
        return IF(gen(BoolType, d - 1, env), gen(A, d - 1, env), gen(A, d - 1, env)) if rnd.random() < 0.5 else rnd.choice(leaves)
    return gen(BoolType, depth, [])


def run_terms(u, out):
    _, tier, seed, ti = u
    if isinstance(ti, tuple):
        terms()                      # fills DECL
        orig = gen_term(random.Random('c08g-%s-%s' % (seed, ti[1])))
        ti = 1000 + ti[1]
    else:
        orig = terms()[ti]
    ss = sites(orig)
    k = len(ss)
    if k <= 9:
        masks = list(itertools.product([0, 1], repeat=k))
    else:
        rnd = random.Random('c08-%s-%s' % (seed, ti))
        n = 256 if tier == 'quick' else 2048
        masks = [tuple(rnd.randint(0, 1) for _ in range(k)) for _ in range(n)] + [tuple([1] * k), tuple([0] * k)]
    for m in masks:
        masked = frozenset(p for p, b in zip(ss, m) if b)
        for declared in (True, False, 'adverse'):
            if declared == 'adverse' and any(node_at(orig, p).is_svar() for p in masked):
                continue        # an erased schematic variable legitimately takes its declared type
            out['evals'] += 1
            if os.environ.get('VERIF_TWIN'):
                if len(out['cex']) < 2:
                    out['cex'].append({'kind': 'twin', 'part': 'term'})
                continue
            kind, detail, judged = judge(orig, masked, declared)
            if judged:
                out['keys'].add('%d|%s|%s' % (ti, m, declared))
            if kind:
                out['cex'].append({'kind': kind, 'part': 'term', 'term': ti, 'seed': seed, 'mask': list(m), 'declared': declared, 'detail': detail, 'sig': '%s|%d|%s|%s' % (kind, ti, m, declared)})
                if len(out['cex']) > 30:
                    return
    out['samples'].append({'term': str(orig), 'annotation_sites': k, 'masks': len(masks)})


def mutate(rnd, t):
    """Replace one leaf of t by a declared variable (possibly of another type) or swap the arguments of one application,
    then erase every type: the skeleton may or may not be typable."""
    from kernel.term import Var, Comb, Abs, Bound
    leaves = []

    def walk(u, path):
        if u.is_var() or u.is_const() or u.is_svar():
            leaves.append(path)
        elif u.is_comb():
            walk(u.fun, path + (0,))
            walk(u.arg, path + (1,))
        elif u.is_abs():
            walk(u.body, path + (2,))
    walk(t, ())
    target = rnd.choice(leaves)
    repl = Var(rnd.choice(['x', 'p', 'a', 'f', 'q']), None)

    def rec(u, path):
        if path == target:
            return repl
        if u.is_var():
            return Var(u.name, None)
        if u.is_svar():
            from kernel.term import SVar
            return SVar(u.name, None)
        if u.is_const():
            from kernel.term import Const
            return Const(u.name, None)
        if u.is_comb():
            return Comb(rec(u.fun, path + (0,)), rec(u.arg, path + (1,)))
        if u.is_abs():
            return Abs(u.var_name, None, rec(u.body, path + (2,)))
        return Bound(u.n)
    return rec(t, ())


def run_mutants(u, out):
    """Possibly ill-typed skeletons obtained from generated terms: inference must fail with its own error or return a
    well-typed term with one type per variable, declared types kept and no internal type variables."""
    from syntax import infertype
    from syntax.infertype import TypeInferenceException
    from logic import context
    _, tier, seed, lo, n = u
    terms()
    for k in range(lo, lo + n):
        rnd = random.Random('c08m-%s-%s' % (seed, k))
        orig = gen_term(rnd)
        sk = mutate(rnd, orig)
        out['evals'] += 1
        if os.environ.get('VERIF_TWIN'):
            if not out['cex']:
                out['cex'].append({'kind': 'twin', 'part': 'mut'})
            continue
        import copy
        with context.fresh_context(vars=dict(DECL)):
            try:
                res = infertype.type_infer(sk)
            except TypeInferenceException:
                continue
            except Exception as e:
                out['cex'].append({'kind': 'infer-exception', 'part': 'mut', 'seed': seed, 'k': k, 'detail': 'mutated skeleton of %r: %s: %s' % (orig, type(e).__name__, str(e)[:80])})
                continue
        out['keys'].add('mut|%s|%d' % (seed, k))
        bad = None
        if any(mentions_internal(T) for T in all_types(res)):
            bad = ('infer-internal', 'still contains internal type variables')
        elif ind_type(res) is None:
            bad = ('infer-illtyped', 'does not type-check')
        else:
            vt = {}

            def coll(t):
                if t.is_var() or t.is_svar():
                    vt.setdefault(('?' if t.is_svar() else '') + t.name, set()).add(repr(t.T))
                elif t.is_comb():
                    coll(t.fun)
                    coll(t.arg)
                elif t.is_abs():
                    coll(t.body)
            coll(res)
            for nm, Ts in vt.items():
                if len(Ts) > 1:
                    bad = ('infer-variable-two-types', '%s occurs at types %s' % (nm, sorted(Ts)))
                elif nm in DECL and repr(DECL[nm]) not in Ts:
                    bad = ('infer-declared', 'declared variable %s :: %s got type %s' % (nm, DECL[nm], sorted(Ts)))
        if bad:
            out['cex'].append({'kind': bad[0], 'part': 'mut', 'seed': seed, 'k': k, 'detail': 'mutated skeleton %r is inferred as %r, which %s' % (sk, res, bad[1])})
    out['samples'].append({'mutated_skeleton': repr(sk)[:200]})


def run_ill(u, out):
    from syntax import infertype
    from syntax.infertype import TypeInferenceException
    from logic import context
    for i, sk in enumerate(ill_skeletons()):
        out['evals'] += 1
        out['keys'].add('ill|%d' % i)
        if os.environ.get('VERIF_TWIN'):
            continue
        import copy
        with context.fresh_context(vars={}):
            try:
                res = infertype.type_infer(copy.copy(sk) if False else ill_skeletons()[i])
            except TypeInferenceException:
                continue
            except Exception as e:
                out['cex'].append({'kind': 'infer-exception', 'part': 'ill', 'i': i, 'detail': 'ill-typed skeleton %r: %s: %s' % (sk, type(e).__name__, str(e)[:80])})
                continue
        vt = {}

        def coll(t):
            if t.is_var() or t.is_svar():
                vt.setdefault(('?' if t.is_svar() else '') + t.name, set()).add(repr(t.T))
            elif t.is_comb():
                coll(t.fun)
                coll(t.arg)
            elif t.is_abs():
                coll(t.body)
        coll(res)
        if any(mentions_internal(T) for T in all_types(res)):
            out['cex'].append({'kind': 'infer-internal', 'part': 'ill', 'i': i, 'detail': 'skeleton %r is inferred as %r, which still contains internal type variables' % (sk, res)})
            continue
        clash = sorted(k for k, v in vt.items() if len(v) > 1)
        if clash:
            out['cex'].append({'kind': 'infer-variable-two-types', 'part': 'ill', 'i': i,
                               'detail': 'skeleton %r is inferred as %r, in which %s occurs at several types %s' % (sk, res, clash[0], sorted(vt[clash[0]]))})
            continue
        if ind_type(res) is None:
            out['cex'].append({'kind': 'infer-illtyped', 'part': 'ill', 'i': i, 'detail': 'ill-typed skeleton %r is inferred as %r, which does not type-check' % (sk, res)})
    out['samples'].append({'ill_typed_skeleton': repr(ill_skeletons()[0])})


def units(tier, seed):
    us = [('terms', tier, seed, i) for i in range(len(terms()))] + [('ill', tier, seed)]
    us += [('terms', tier, seed, ('gen', j)) for j in range(100 if tier == 'quick' else 400)]
    nm = 4000 if tier == 'quick' else 40000
    us += [('mut', tier, seed, lo, 100) for lo in range(0, nm, 100)]
    random.Random(seed).shuffle(us)
    return us


def run_unit(u):
    out = {'evals': 0, 'keys': set(), 'cex': [], 'samples': [], 'inconclusive': 0, 'stats': {}}
    if u[0] == 'mut':
        run_mutants(u, out)
    elif u[0] == 'terms':
        run_terms(u, out)
    else:
        run_ill(u, out)
    out['keys'] = list(out['keys'])
    return out


def replay(c):
    if c['kind'] == 'twin':
        return True, 'twin'
    if c['part'] == 'mut':
        out = {'evals': 0, 'keys': set(), 'cex': [], 'samples': [], 'inconclusive': 0, 'stats': {}}
        run_mutants(('mut', 'quick', c['seed'], c['k'], 1), out)
        m = [x for x in out['cex'] if x['kind'] == c['kind']]
        return bool(m), m[0]['detail'] if m else 'not reproduced'
    if c['part'] == 'ill':
        out = {'evals': 0, 'keys': set(), 'cex': [], 'samples': [], 'inconclusive': 0, 'stats': {}}
        run_ill(None, out)
        m = [x for x in out['cex'] if x['i'] == c['i'] and x['kind'] == c['kind']]
        return bool(m), m[0]['detail'] if m else 'not reproduced'
    if c['term'] >= 1000:
        terms()
        orig = gen_term(random.Random('c08g-%s-%s' % (c.get('seed', 0), c['term'] - 1000)))
    else:
        orig = terms()[c['term']]
    ss = sites(orig)
    masked = frozenset(p for p, b in zip(ss, c['mask']) if b)
    kind, detail, _ = judge(orig, masked, c['declared'])
    return kind == c['kind'], detail
