"""C01 -- every sequent the checker accepts from primitive inferences is valid and well-typed.

Inputs (E): all straight-line proof scripts of <= L primitive steps over an adversarial argument pool, explored as a
DFS over the real checker (theory._check_proof_item, the loop body of check_proof), pruned only by
  (a) a rejected step ends its branch (check_proof would raise there), and
  (b) a step whose sequent is already among the registers adds nothing.
Every *distinct* accepted sequent is re-derived through the public theory.check_proof(Proof, no_gaps=True) and then
decided by the holsmt oracle (S): valid in every standard model (array encoding; all cardinalities) or, in the
fallback, in every finite model with type variables of size <= 3; counter-models are confirmed by an independent
evaluator.  An independent 30-line type checker decides "well-typed".
"""
import itertools
import time
import os
import random

PID = 'C01'
LEVEL = 'other'
LEVEL_TEXT = ('Bounded-exhaustive exploration of primitive-rule proof scripts (<= L steps over an adversarial term/instantiation pool) through the real '
              'checker; for every distinct accepted sequent an SMT solver decides validity in all standard models (z3 arrays + uninterpreted sorts, with a '
              'finite-model encoding for type variables of size <= 3 as fallback) and an independent checker decides well-typedness. '
              'The semantic quantifier (all models / interpretations) is solver-decided; proof shape is a stated bound.')
LEVEL_NOTE = ('trusts z3, the holsmt translation (validated against the library theorems at start-up), the independent evaluator and type checker in vlib; '
              'scripts longer than L, other argument pools and axioms of the base logic are outside the claim')
TECHNIQUE = 'bounded-exhaustive scripts through the real checker + SMT validity oracle over all models (finite-model fallback)'
FUNCTIONS = ['kernel.theory:Theory.check_proof/_check_proof_item', 'kernel.thm:Thm.* (all 15 primitive_deriv entries)', 'kernel.thm:Thm.check_thm_type',
             'kernel.term:Term.occurs_var/abstract_over/subst_bound/subst/subst_type/beta_conv/checked_get_type', 'kernel.type:Type.subst/match_incr']
ASSUMPTIONS = [
    'theory = EmptyTheory + logic_base constants; no `theorem` steps (no axioms) in this check',
    'argument pool (terms, instantiations, type instantiations) as listed under bounds; includes SVars in hypotheses, open terms (loose Bound), ill-typed applications, name clashes between Var/SVar and between types',
    'registers: every earlier step may be cited; a step that reproduces an existing register is not extended further',
    'finite-model fallback: type variables of size 1..3, function order <= 2',
]
RULE = ('one evaluation = one proof script step sequence submitted to the checker; distinct_nontrivial = distinct accepted sequents (printed with types) '
        'that reached the SMT oracle; trivial = rejected scripts and sequents already seen')
EXPLANATION = ('each accepted sequent is translated to SMT: type variables -> uninterpreted sorts, functions -> arrays, free/schematic variables -> constants; '
               'unsat of hyps & ~concl means valid in every model; sat is confirmed by brute-force evaluation in the finite model')
BUDGET_S = {'quick': 240, 'thorough': 900}


_P = {}


def bounds(tier):
    p = pool(tier)
    return {'max_steps': p['L'], 'exploration': 'exhaustive DFS' if tier == 'quick' else 'DFS to depth 4 in time slices of %.0f s per (first step, rule of the second step): not exhaustive' % SLICE_S,
            'terms': len(p['terms']), 'insts': len(p['insts']), 'tyinsts': len(p['tyinsts']),
            'rules': sorted(NPREV), 'sample_terms': [sstr(t) for t in p['terms'][:60]]}


NPREV = {'assume': 0, 'reflexive': 0, 'beta_conv': 0, 'implies_intr': 1, 'forall_intr': 1, 'forall_elim': 1, 'abstraction': 1,
         'subst_type': 1, 'substitution': 1, 'symmetric': 1, 'implies_elim': 2, 'transitive': 2, 'combination': 2, 'equal_intr': 2, 'equal_elim': 2}


def sstr(x):
    try:
        return str(x)
    except Exception:
        return repr(x)


def setup(tier, seed):
    from logic import basic
    basic.load_theory('logic_base')


def pool(tier):
    if tier in _P:
        return _P[tier]
    from kernel.type import TVar, STVar, TFun, BoolType, TyInst
    from kernel.term import Var, SVar, Eq, Forall, Inst, Implies, Lambda, Bound, Comb, Const, Not
    A, SA, B = TVar('a'), STVar('a'), TVar('b')
    leaves = [K(nm, T) for nm in ('x', 'y') for K in (Var, SVar) for T in (A, SA)]
    xA, xSA, sxA, sxSA, yA, ySA, syA, sySA = leaves
    P = lambda T: Var('P', TFun(T, BoolType))
    terms = list(leaves)
    terms += [P(v.T)(v) for v in leaves]
    terms += [SVar('Q', TFun(SA, BoolType))(sxSA), SVar('Q', TFun(A, BoolType))(xA)]
    terms += [Eq(xA, yA), Eq(sxSA, sySA), Eq(xA, sxA), Eq(sxSA, xSA), Eq(xA, xA)]
    terms += [Var('p', BoolType), SVar('q', BoolType), Const('false', BoolType), Not(Var('p', BoolType))]
    terms += [Lambda(xA, xA), Lambda(xA, P(A)(xA)), Comb(Lambda(xA, P(A)(xA)), yA), Comb(Lambda(xA, Lambda(yA, Eq(xA, yA))), yA)]
    terms += [Forall(xA, P(A)(xA)), Forall(xSA, ySA, Eq(xSA, ySA)), Forall(xA, Eq(xA, sxA)), Forall(xA, P(A)(yA))]
    terms += [Implies(Var('p', BoolType), SVar('q', BoolType)), Implies(P(A)(xA), P(A)(yA))]
    # implications whose conclusion is an equation (rules must look at the proposition, not at what remains after stripping implications)
    E0 = Eq(Implies(Const('false', BoolType), Const('false', BoolType)), Const('false', BoolType))
    terms += [Implies(Var('p', BoolType), Eq(xA, yA)), Implies(E0, E0), Eq(Const('false', BoolType), Const('false', BoolType)), Implies(Const('false', BoolType), Const('false', BoolType))]
    terms += [Bound(0), P(A)(Bound(0)), Comb(P(A), sxSA), Eq(xA, xSA) if False else Comb(Var('f', TFun(A, A)), xA)]
    # function-typed variables as arguments of forall_intr / abstraction / reflexive (head-position occurrences in hypotheses)
    terms += [P(A), Var('f', TFun(A, A)), SVar('Q', TFun(A, BoolType))]
    # redexes / quantified statements whose body uses one Python object (with a loose bound variable) at two binder depths
    from kernel.term import Abs
    fB = Comb(Var('f', TFun(A, A)), Bound(0))
    terms += [Comb(Abs('x', A, Eq(fB, Comb(Abs('y', A, fB), yA))), xA)]
    pB = Comb(P(A), Bound(0))
    from kernel.term import Const as _C
    terms += [Comb(_C('all', TFun(TFun(A, BoolType), BoolType)), Abs('x', A, Implies(pB, Comb(_C('all', TFun(TFun(A, BoolType), BoolType)), Abs('y', A, pB)))))]
    insts = []
    for nm, ts in (('x', [Var('c', B), Var('c', A), xA, yA, ySA, Bound(0), Comb(Var('f', TFun(A, A)), xA)]),
                   ('y', [Var('c', B), xA, sxSA]),
                   ('q', [Var('p', BoolType), Const('false', BoolType), P(A)(xA)]),
                   ('Q', [Lambda(xA, Eq(xA, yA)), Lambda(xSA, Eq(xSA, ySA)), P(A), Lambda(yA, P(A)(xA))])):
        for t in ts:
            insts.append({nm: t})
    # free-variable instantiations (Inst.var_inst, used by the veriT reconstruction): keys 'V:<name>'
    for nm, ts in (('x', [yA, Var('c', A), Comb(Var('f', TFun(A, A)), xA), sxA, Var('c', B), Bound(0)]), ('p', [Const('false', BoolType), SVar('q', BoolType), Not(Var('p', BoolType))]),
                   ('y', [xA, Bound(0), Comb(P(A), Bound(0)) if False else Var('c', B)])):
        for t in ts:
            insts.append({'V:' + nm: t})
    insts.append({'V:x': yA, 'x': xA})
    insts.append({'x': Var('c', B), 'y': Var('d', B)})
    insts.append({'x': yA, 'y': xA})
    tyinsts = [{'a': B}, {'a': BoolType}, {'a': A}]
    if tier == 'thorough':
        L = 4
    else:
        L = 3
    _P[tier] = {'terms': terms, 'insts': insts, 'tyinsts': tyinsts, 'L': L, 'leaves': leaves,
                'redexes': [t for t in terms if t.is_comb() and t.fun.is_abs()]}
    return _P[tier]


def step_args(rule, p):
    """Argument candidates of a rule as (tag, index) pairs."""
    if rule in ('assume', 'reflexive', 'implies_intr', 'forall_elim'):
        return [('t', i) for i in range(len(p['terms']))]
    if rule == 'beta_conv':
        return [('t', i) for i, t in enumerate(p['terms']) if t.is_comb()]
    if rule in ('forall_intr', 'abstraction'):
        return [('t', i) for i, t in enumerate(p['terms']) if i < len(p['leaves']) or t.is_bound() or t.is_const() or t.is_var() or t.is_svar()]
    if rule == 'subst_type':
        return [('ty', i) for i in range(len(p['tyinsts']))]
    if rule == 'substitution':
        return [('inst', i) for i in range(len(p['insts']))]
    return [None]


def mk_arg(a, p):
    from kernel.type import TyInst
    from kernel.term import Inst
    if a is None:
        return None
    tag, i = a
    if tag == 't':
        return p['terms'][i]
    if tag == 'ty':
        return TyInst(**p['tyinsts'][i])
    d = p['insts'][i]
    inst = Inst(**{k: v for k, v in d.items() if not k.startswith('V:')})
    for k, v in d.items():
        if k.startswith('V:'):
            inst.var_inst[k[2:]] = v
    return inst


def first_steps(p):
    out = []
    for rule in ('assume', 'reflexive', 'beta_conv'):
        for a in step_args(rule, p):
            out.append((rule, a))
    return out


def units(tier, seed):
    p = pool(tier)
    fs = first_steps(p)
    if tier == 'quick':
        us = [('dfs', tier, i) for i in range(len(fs))]
    else:
        # depth 4 is too large to exhaust from any first step: one unit per (first step, rule of the second step), each with its
        # own time slice; a unit that runs out of time reports what it explored (the run is then not exhaustive, and says so)
        us = [('dfs', tier, i, r) for i in range(len(fs)) for r in range(len(NPREV))]
    random.Random(seed).shuffle(us)
    return us


# ------------------------------------------------------------------ independent type checker

def ind_type(t, env=()):
    """Type of t or None if ill-typed (independent of Term.checked_get_type)."""
    if t.is_var() or t.is_svar() or t.is_const():
        return t.T
    if t.is_bound():
        return env[t.n] if t.n < len(env) else None
    if t.is_abs():
        from kernel.type import TFun
        b = ind_type(t.body, (t.var_T,) + env)
        return None if b is None else TFun(t.var_T, b)
    f = ind_type(t.fun, env)
    a = ind_type(t.arg, env)
    if f is None or a is None or not f.is_fun() or f.args[0] != a:
        return None
    return f.args[1]


def well_typed_thm(th):
    from kernel.type import BoolType
    return all(ind_type(t) == BoolType for t in list(th.hyps) + [th.prop])


def thm_key(th):
    return '%s |- %s' % (sorted(repr(h) for h in th.hyps), repr(th.prop))


# ------------------------------------------------------------------ exploration

ORACLE = None
TRIVIAL = [0]
SLICE_S = 12.0      # thorough tier: time slice of one (first step, second rule) unit


def judge(th):
    """-> (kind or None, detail)"""
    global ORACLE
    from vlib.holsmt import Oracle
    if ORACLE is None:
        ORACLE = Oracle(timeout_ms=1500)
    if not well_typed_thm(th):
        return 'ill-typed-accepted', None
    # syntactically trivial sequents (A |- A, |- t = t) are valid by inspection: no solver call
    if th.prop in th.hyps or (th.prop.is_equals() and th.prop.lhs == th.prop.rhs):
        TRIVIAL[0] += 1
        return None, None
    v = ORACLE.valid(th.hyps, th.prop, key=thm_key(th))      # memo persists across the units a worker processes
    if v.status == 'invalid':
        return 'invalid-accepted', v
    if v.status == 'unknown':
        return '_unknown', v
    return None, v


def build_proof(script, p):
    from kernel.proof import Proof
    prf = Proof()
    for i, (rule, a, pv) in enumerate(script):
        prf.add_item(i, rule, args=mk_arg(a, p), prevs=[(j,) for j in pv])
    return prf


def run_unit(u):
    from kernel import theory
    from kernel.proof import Proof, ProofItem
    from kernel.theory import CheckProofException
    tier, idx = u[1], u[2]
    second = u[3] if len(u) > 3 else None
    deadline = time.monotonic() + SLICE_S if second is not None else None
    p = pool(tier)
    L = p['L']
    twin = bool(os.environ.get('VERIF_TWIN'))
    out = {'evals': 0, 'keys': set(), 'cex': [], 'samples': [], 'inconclusive': 0, 'stats': {'accepted': 0, 'rejected': 0, 'checker_exceptions': 0}}
    thy = theory.thy
    prf = Proof()
    regs = []        # register file: keys of theorems so far
    script = []
    judged = {}
    rules = list(NPREV)
    allargs = {r: step_args(r, p) for r in rules}
    visited = set()
    fs = first_steps(p)

    def try_step(rule, a, pv):
        item = ProofItem(len(prf.items), rule, args=mk_arg(a, p), prevs=[(j,) for j in pv])
        out['evals'] += 1
        try:
            thy._check_proof_item(prf, item, None, True, False, 0)
        except CheckProofException:
            out['stats']['rejected'] += 1
            return None
        except Exception:
            # any other exception also makes check_proof fail: nothing is accepted
            out['stats']['checker_exceptions'] += 1
            return None
        out['stats']['accepted'] += 1
        return item

    def on_accept(item):
        th = item.th
        k = thm_key(th)
        if k in judged:
            return
        kind, v = judge(th)
        judged[k] = kind
        out['keys'].add(k)
        # self-validation: the public entry point on the whole script gives the same sequent
        try:
            th2 = theory.check_proof(build_proof(script, p), no_gaps=True)
            same = thm_key(th2) == k
        except Exception as e:  # noqa
            same = False
        out['stats']['validated'] = out['stats'].get('validated', 0) + 1
        if not same:
            out['stats'].setdefault('validation_errors', []).append({'script': [[r, a_, list(pv_)] for r, a_, pv_ in script]})
        if twin:
            out['cex'].append({'kind': 'twin', 'script': [list(s) for s in script], 'tier': tier})
            return
        if kind == '_unknown':
            out['inconclusive'] += 1
            return
        if kind:
            out['cex'].append({'kind': kind, 'script': [[r, a, list(pv)] for r, a, pv in script], 'tier': tier, 'sequent': sstr(th),
                               'model': str(v.model) if v is not None else None, 'sig': kind + '|' + k})

    def rec(depth):
        if len(out['cex']) >= 40:
            return
        state = frozenset(regs)
        if (depth, state) in visited:
            return
        visited.add((depth, state))
        if depth == L:
            return
        if deadline is not None and time.monotonic() > deadline:
            out['stats']['time_slice_exhausted'] = 1
            out['stats']['budget_cut'] = 1
            return
        n = len(prf.items)
        for ri, rule in enumerate(rules):
            if depth == 1 and second is not None and ri != second:
                continue
            k = NPREV[rule]
            if k > n:
                continue
            if k == 0 and depth == L - 1:
                continue    # a premise-free rule as the last step yields a sequent already reached as a first step
            for a in allargs[rule]:
                for pv in itertools.product(range(n), repeat=k):
                    item = try_step(rule, a, pv)
                    if item is None:
                        continue
                    key = thm_key(item.th)
                    if key in regs:
                        continue
                    prf.items.append(item)
                    regs.append(key)
                    script.append((rule, a, pv))
                    on_accept(item)
                    rec(depth + 1)
                    script.pop()
                    regs.pop()
                    prf.items.pop()

    rule, a = fs[idx]
    item = try_step(rule, a, ())
    if item is not None:
        prf.items.append(item)
        regs.append(thm_key(item.th))
        script.append((rule, a, ()))
        on_accept(item)
        rec(1)
        out['samples'].append({'first_step': '%s %s' % (rule, sstr(mk_arg(a, p))), 'sequents_judged': len(judged)})
    if ORACLE is not None:
        out['stats'].update({'oracle_calls': ORACLE.calls, 'oracle_queries': ORACLE.queries, 'oracle_s': round(ORACLE.seconds, 3),
                             'oracle_valid_all_models': ORACLE.counts['valid'], 'oracle_valid_finite_only': ORACLE.counts['valid-bounded'],
                             'oracle_invalid': ORACLE.counts['invalid'], 'oracle_unknown': ORACLE.counts['unknown'], 'trivially_valid_no_solver': TRIVIAL[0]})
        TRIVIAL[0] = 0
        ORACLE.calls = ORACLE.queries = 0
        ORACLE.seconds = 0.0
        for k in ORACLE.counts:
            ORACLE.counts[k] = 0
    out['keys'] = list(out['keys'])
    return out


def replay(c):
    """Re-run the script through the public check_proof and judge the final sequent again."""
    from kernel import theory
    if c['kind'] == 'twin':
        return True, 'twin'
    p = pool(c['tier'])
    script = [(r, tuple(a) if a is not None else None, tuple(pv)) for r, a, pv in c['script']]
    prf = build_proof(script, p)
    try:
        th = theory.check_proof(prf, no_gaps=True)
    except Exception as e:
        return False, 'check_proof rejects the script: %r' % e
    kind, v = judge(th)
    txt = 'check_proof(no_gaps=True) accepts\n%s\nresult: %s -- %s%s' % (sstr(prf), sstr(th), kind, (' counter-model ' + str(v.model)) if v is not None and v.model else '')
    return kind == c['kind'], txt
