"""C05 -- trusted arithmetic evaluation steps only assert true arithmetic facts.

Every macro the checker evaluates without expansion at the default level (nat_eval, int_eval, int_const_ineq, real_eval,
real_const_eq, real_compare, real_const_ineq, real_norm, real_eq_comparison, const_inequality) is reached through a
one-step theory.check_proof.
 1. Ground goals (E shapes; S oracle): relation x two expression trees over + - * / ^ uminus Suc of_nat of_int at nat,
    int and real, *every macro offered every goal* (so goals of another type than the macro's are part of the space).
    Accepted sequent => z3 proves it under the library semantics (truncated nat subtraction, x/0 = 0, exact rationals);
    a counter-model is confirmed by the independent exact evaluator.
 2. real_norm / real_eq_comparison with free variables (S): accepted p = q => z3 NRA proves  forall vars. p = q.
 3. const_inequality, floating point (S): templates over sqrt + * / with 8-bit numerals; the IEEE-double semantics of
    real_approx_eval (derived from its source by an AST walk, validated bit-for-bit against the real function) is encoded
    in z3 FP; the query "float evaluation accepts but the exact real statement is false" is solved for *all* numeral
    values; each model is replayed through the real macro.
"""
import ast
import itertools
import math
import os
import random
from fractions import Fraction

import z3

PID = 'C05'
LEVEL = 'other'
LEVEL_TEXT = ('Every trusted evaluation macro is run through the real one-step check_proof on an enumerated family of ground goals of all numeric types; '
              'truth of each accepted sequent is decided by z3 under the library semantics. Polynomial identities with free variables are decided by z3 NRA '
              'for all variable values. For the floating-point comparison the IEEE-double evaluation is encoded from the source of real_approx_eval in z3 FP and '
              'the solver searches all 8-bit numeral values for an accepted-but-false statement.')
LEVEL_NOTE = ('trusts z3 (LIA/NRA/FP), the holsmt constant table, the independent exact evaluator; transcendental functions (sin cos exp log atn pi) and '
              'non-rational powers have no SMT theory and are outside the claim; expression depth and numeral ranges are bounded as stated')
TECHNIQUE = 'one-step check_proof on enumerated goals + z3 truth oracle (LIA/NRA); z3 FP model of real_approx_eval derived from its AST'
FUNCTIONS = ['data.nat:nat_eval/nat_eval_macro', 'data.integer:int_eval/int_eval_macro/int_const_ineq_macro', 'data.real:real_eval/real_eval_macro/RealEqMacro/RealCompareMacro/real_const_ineq_macro',
             'data.real:real_norm_macro/convert_to_poly/RealCompEq', 'integral.inequality:ConstInequalityMacro/eval_inequality_expr', 'data.real:real_approx_eval',
             'kernel.term:Term.is_number/dest_number', 'kernel.theory:check_proof']
ASSUMPTIONS = [
    'goal family: relation in {=, <, <=, >, >=} (and negations), sides = expression trees of depth <= 2 over numerals 0..3 (and 1/2 at real), + - * / ^(0..2) uminus Suc of_nat of_int, at nat/int/real',
    'every macro is offered every goal; rejected goals claim nothing',
    'floating point: numerals are 8-bit (1..255); templates sqrt a * sqrt b ~ c, sqrt a * sqrt a ~ a, sqrt a + sqrt b ~ sqrt c, a / sqrt b ~ sqrt c; exact truth of a template is its squared integer form',
    'the FP encoding is regenerated from data/real.py (ast) on every run and compared bit-for-bit with real_approx_eval on 300 seeded terms before use',
]
RULE = ('one evaluation = one (macro, goal) pair submitted to check_proof, or one solver query of part 2/3; distinct = distinct accepted sequents; '
        'non-trivial = accepted by the macro (it reached the truth oracle)')
EXPLANATION = ('accepted sequents are translated to z3 with the library meaning of the arithmetic constants and proved; FP: exists numerals. float-eval(goal) and not exact(goal), solved in QF_FPBV')
BUDGET_S = {'quick': 240, 'thorough': 900}

MACROS = ['nat_eval', 'int_eval', 'int_const_ineq', 'real_eval', 'real_const_eq', 'real_compare', 'real_const_ineq', 'real_norm', 'const_inequality']


def bounds(tier):
    return {'macros': MACROS + ['real_eq_comparison'], 'ground_goals': 'depth-1 sides exhaustively; casts of_nat / of_int of every depth-1 expression against -4..4; Pre / abs / max / min around depth-1 expressions, wrapped once (+1, Suc, square, 2 - .), against small numerals; huge and near-equal constants (2^53 + 1 vs 2^53, 1 + 1/10^20 vs 1, ...) in both orders with all relations; depth-2 sides %d seeded goals per type' % (900 if tier == 'quick' else 40000),
            'poly_goals': 400 if tier == 'quick' else 8000, 'fp_templates': FP_TEMPLATES, 'fp_numeral_bits': 8, 'fp_timeout_s': 30 if tier == 'quick' else 400, 'fp_solvers': 'z3 5.1 and cvc5 1.0.3 binaries concurrently, first definitive answer', 'fp_queries': 'quick: template 0 all relations, template 1 < >, template 3 <; thorough: all'}


def setup(tier, seed):
    from data import real  # noqa
    from logic import basic
    from integral import inequality  # noqa
    basic.load_theory('real')


# ------------------------------------------------------------------ goal family

_E = {}


def exprs(Tn, depth):
    """List of ground expressions of type Tn ('nat'|'int'|'real') of the given depth bound."""
    key = (Tn, depth)
    if key in _E:
        return _E[key]
    from kernel.type import NatType, IntType, RealType
    from kernel import term as T
    from kernel.term import Number, Nat
    ty = {'nat': NatType, 'int': IntType, 'real': RealType}[Tn]
    if depth == 0:
        out = [Number(ty, n) for n in (0, 1, 2, 3)]
        if Tn == 'real':
            out.append(Number(ty, Fraction(1, 2)))
        if Tn != 'nat':
            out.append(Number(ty, -1))
    else:
        sub = exprs(Tn, depth - 1)
        out = list(sub)
        small = sub if depth == 1 else sub[:12]
        for a in sub:
            for b in small:
                out.append(T.plus(ty)(a, b))
                out.append(T.minus(ty)(a, b))
                out.append(T.times(ty)(a, b))
                if Tn == 'real':
                    out.append(T.divides(ty)(a, b))
        for a in sub:
            if Tn != 'nat':
                out.append(T.uminus(ty)(a))
            else:
                out.append(T.Const('Suc', T.TFun(NatType, NatType))(a))
            for e in (0, 2):
                out.append(T.nat_power(ty)(a, Nat(e)))
        if Tn in ('int', 'real'):
            for a in exprs('nat', depth - 1)[:20]:
                out.append(T.of_nat(ty)(a))
        if Tn == 'real':
            for a in exprs('int', depth - 1)[:20]:
                out.append(T.of_int(ty)(a))
    _E[key] = out
    return out


RELS = ['eq', 'less', 'less_eq', 'greater', 'greater_eq', 'neq', 'nless']


def mk_goal(rel, a, b):
    from kernel import term as T
    from kernel.term import Eq, Not
    ty = a.get_type()
    if rel == 'eq':
        return Eq(a, b)
    if rel == 'neq':
        return Not(Eq(a, b))
    if rel == 'nless':
        return Not(T.less(ty)(a, b))
    return getattr(T, rel)(ty)(a, b)


def one_step(macro, goal):
    """Run the macro through a one-step proof. -> Thm or None"""
    from kernel import theory
    from kernel.proof import Proof
    prf = Proof()
    prf.add_item(0, macro, args=goal)
    try:
        return theory.check_proof(prf)
    except Exception:
        return None


ORACLE = None


def oracle():
    global ORACLE
    if ORACLE is None:
        from vlib.holsmt import Oracle
        ORACLE = Oracle(timeout_ms=3000)
    return ORACLE


def judge_ground(th):
    """-> 'true' | 'false' | 'unknown' (z3; a 'false' is confirmed by the independent evaluator inside the oracle)"""
    v = oracle().valid(th.hyps, th.prop, key=repr(th.prop))
    return {'valid': 'true', 'invalid': 'false'}.get(v.status, 'unknown')


def check_goal(macro, goal, out, rec):
    th = one_step(macro, goal)
    out['evals'] += 1
    if th is None:
        return
    key = '%s|%r' % (macro, th.prop)
    out['keys'].add(key)
    if os.environ.get('VERIF_TWIN'):
        out['cex'].append(dict(rec, kind='twin'))
        return
    if th.hyps:
        out['cex'].append(dict(rec, kind='ground-hyps', detail='%s returned a sequent with hypotheses: %s' % (macro, th)))
        return
    r = judge_ground(th)
    if r == 'false':
        out['cex'].append(dict(rec, kind='ground-false:' + macro, detail='check_proof accepts the one-step proof `%s %s` and returns %s, which is false' % (macro, goal, th),
                               sig='ground-false|%s|%r' % (macro, th.prop)))
    elif r == 'unknown':
        out['inconclusive'] += 1


def cast_exprs(Tn):
    """Casts of nat / int expressions of depth <= 1 into Tn ('int' | 'real'), followed by the numerals -4..4 they are compared with."""
    key = ('cast', Tn)
    if key in _E:
        return _E[key]
    from kernel.type import IntType, RealType
    from kernel import term as T
    from kernel.term import Number
    ty = {'int': IntType, 'real': RealType}[Tn]
    casts = [T.of_nat(ty)(a) for a in exprs('nat', 1)]
    if Tn == 'real':
        casts += [T.of_int(ty)(a) for a in exprs('int', 1)[:60]]
    nums = [Number(ty, k) for k in range(-4, 5)]
    _E[key] = (casts, nums)
    return _E[key]


def fun_exprs(Tn):
    """Ground expressions built with library functions an evaluator may or may not know (Pre, max, min, abs) around depth-1
    expressions, wrapped once more (+1, Suc, square, 2 - .): (expressions, numerals to compare with)."""
    key = ('fun', Tn)
    if key in _E:
        return _E[key]
    from kernel.type import NatType, IntType, RealType, TFun
    from kernel import term as T
    from kernel.term import Number, Const
    ty = {'nat': NatType, 'int': IntType, 'real': RealType}[Tn]
    N = lambda v: Number(ty, v)
    base = exprs(Tn, 1)
    small = exprs(Tn, 0) + [T.minus(ty)(N(1), N(2)), T.minus(ty)(N(3), N(1)), T.times(ty)(N(2), N(2))]
    F = []
    if Tn == 'nat':
        pre = Const('Pre', TFun(ty, ty))
        F += [pre(a) for a in base] + [pre(pre(a)) for a in small]
    else:
        ab = Const('abs', TFun(ty, ty))
        F += [ab(a) for a in base]
    for nm in ('max', 'min'):
        f = Const(nm, TFun(ty, ty, ty))
        F += [f(a, b) for a in small for b in small]
    out = []
    for f in F:
        out += [f, T.plus(ty)(f, N(1)), T.times(ty)(f, f), T.minus(ty)(N(2), f)]
        if Tn == 'nat':
            out.append(Const('Suc', TFun(ty, ty))(f))
    if Tn == 'real':
        # real powers with real numeral exponents (library: x ^ 0 = 1 also for x = 0, 0 ^ p = 0 for p != 0)
        bases = [N(0), N(2), T.minus(ty)(N(2), N(2)), N(Fraction(1, 2)), N(-1), T.times(ty)(N(0), N(3))]
        exps = [N(0), N(1), N(2), N(-1), T.minus(ty)(N(3), N(3)), N(-2), T.plus(ty)(N(1), N(1))]
        rp = Const('power', TFun(ty, ty, ty))
        for b in bases:
            for e in exps:
                pw = rp(b, e)
                out += [pw, T.plus(ty)(N(5), pw), T.times(ty)(pw, N(2))]
    nums = [N(k) for k in (range(0, 4) if Tn == 'nat' else range(-2, 4))]
    if Tn == 'real':
        nums += [N(5), N(6), N(Fraction(1, 2)), N(Fraction(1, 4))]
    _E[key] = (out, nums)
    return _E[key]


def near_exprs(Tn):
    """Huge and near-equal constants: pairs (a, b) whose difference is far below the resolution of IEEE doubles."""
    key = ('near', Tn)
    if key in _E:
        return _E[key]
    from kernel.type import NatType, IntType, RealType
    from kernel import term as T
    from kernel.term import Number, Nat
    ty = {'nat': NatType, 'int': IntType, 'real': RealType}[Tn]
    N = lambda v: Number(ty, v)
    P = lambda b, e: T.nat_power(ty)(N(b), Nat(e))
    pairs = [(P(2, 53) + N(1), P(2, 53)), (P(10, 30) + N(1), P(10, 30)), (P(2, 64), P(2, 64) - N(1)), (N(2 ** 53 + 1), N(2 ** 53)), (P(10, 20) * N(3), P(10, 20) * N(3) + N(1))]
    if Tn == 'real':
        pairs += [(N(1) + N(1) / P(10, 20), N(1)), (N(1) / N(3), N(Fraction(333333333333333333333, 10 ** 21))), (N(1) - N(1) / P(2, 70), N(1)),
                  (N(Fraction(1, 3)) + N(Fraction(1, 10 ** 25)), N(Fraction(1, 3))), (N(1) / P(10, 20), N(0)), (N(2) / N(3) + N(1) / P(10, 18), N(2) / N(3))]
    _E[key] = pairs
    return pairs


def run_ground(u, out):
    _, tier, seed, Tn, mode, lo, hi = u
    if mode == 'near':
        prs = near_exprs(Tn)
        for i, (a, b) in enumerate(prs):
            for swap in (0, 1):
                l, r_ = (a, b) if not swap else (b, a)
                for r in RELS:
                    goal = mk_goal(r, l, r_)
                    for m in MACROS:
                        check_goal(m, goal, out, {'part': 'ground', 'type': Tn, 'depth': 'near', 'i': i, 'j': swap, 'rel': r, 'macro': m})
        out['samples'].append({'goal': str(mk_goal('eq', prs[0][0], prs[0][1])), 'macros': 'all %d' % len(MACROS)})
        return
    if mode == 'fun':
        es, nums = fun_exprs(Tn)
        for i in range(lo, min(hi, len(es))):
            for j, c in enumerate(nums):
                for r in ('eq', 'less', 'less_eq'):
                    goal = mk_goal(r, es[i], c)
                    for m in MACROS:
                        check_goal(m, goal, out, {'part': 'ground', 'type': Tn, 'depth': 'fun', 'i': i, 'j': j, 'rel': r, 'macro': m})
            if len(out['cex']) >= 30:
                break
        out['samples'].append({'goal': str(mk_goal('eq', es[lo], nums[0])), 'macros': 'all %d' % len(MACROS)})
        return
    if mode == 'cast':
        casts, nums = cast_exprs(Tn)
        for i in range(lo, min(hi, len(casts))):
            for j, c in enumerate(nums):
                for r in ('eq', 'less', 'less_eq', 'greater'):
                    goal = mk_goal(r, casts[i], c)
                    for m in MACROS:
                        check_goal(m, goal, out, {'part': 'ground', 'type': Tn, 'depth': 'cast', 'i': i, 'j': j, 'rel': r, 'macro': m})
            if len(out['cex']) >= 30:
                break
        out['samples'].append({'goal': str(mk_goal('eq', casts[lo], nums[0])), 'macros': 'all %d' % len(MACROS)})
        return
    if mode == 'd1':
        es = exprs(Tn, 1)
        pairs = [(i, j) for i in range(lo, min(hi, len(es))) for j in range(len(es))]
        rels = ['eq', 'less', 'less_eq']
        depth = 1
    else:
        es = exprs(Tn, 2)
        rnd = random.Random('c05-%s-%s-%s' % (seed, Tn, lo))
        pairs = [(rnd.randrange(len(es)), rnd.randrange(len(es))) for _ in range(hi - lo)]
        rels = RELS
        depth = 2
    for n, (i, j) in enumerate(pairs):
        a, b = es[i], es[j]
        rel = rels[n % len(rels)] if mode != 'd1' else None
        for r in ([rel] if rel else rels):
            goal = mk_goal(r, a, b)
            for m in MACROS:
                check_goal(m, goal, out, {'part': 'ground', 'type': Tn, 'depth': depth, 'i': i, 'j': j, 'rel': r, 'macro': m})
        if len(out['cex']) >= 30:
            break
    out['samples'].append({'goal': str(mk_goal('eq', es[pairs[0][0]], es[pairs[0][1]])) if pairs else None, 'macros': 'all %d' % len(MACROS)})


# ------------------------------------------------------------------ part 2: polynomial identities with variables

def poly_exprs(rnd, depth):
    from kernel.type import RealType, NatType
    from kernel.term import Var, Number, Nat
    from kernel import term as T
    x, y = Var('x', RealType), Var('y', RealType)
    n = Var('n', NatType)
    leaves = [x, y, T.of_nat(RealType)(n), Number(RealType, 0), Number(RealType, 1), Number(RealType, 2), Number(RealType, Fraction(1, 2)), Number(RealType, -1)]

    def gen(d):
        if d == 0 or rnd.random() < 0.25:
            return rnd.choice(leaves)
        op = rnd.choice(['plus', 'minus', 'times', 'divides', 'uminus', 'pow', 'ofnat'])
        if op == 'uminus':
            return T.uminus(RealType)(gen(d - 1))
        if op == 'pow':
            return T.nat_power(RealType)(gen(d - 1), Nat(rnd.choice([0, 1, 2, 3])))
        if op == 'ofnat':
            m = rnd.choice([n, n + Nat(1), n - Nat(1), n * n, Nat(2) - n])
            return T.of_nat(RealType)(m)
        a, b = gen(d - 1), gen(d - 1)
        return getattr(T, op)(RealType)(a, b)
    return gen(depth)


def rearrange(rnd, t):
    """A semantically suspicious or innocent variant of t."""
    from kernel.type import RealType
    from kernel.term import Number
    from kernel import term as T
    k = rnd.randrange(7)
    one, zero, two = Number(RealType, 1), Number(RealType, 0), Number(RealType, 2)
    if k == 0 and t.is_plus():
        return T.plus(RealType)(t.arg, t.arg1)
    if k == 1:
        return T.times(RealType)(one, t)
    if k == 2:
        return T.divides(RealType)(T.times(RealType)(t, two), two)
    if k == 3:
        return T.minus(RealType)(T.plus(RealType)(t, one), one)
    if k == 4:
        return T.divides(RealType)(T.times(RealType)(t, t), t)          # t*t/t = t ?  (false at t = 0)
    if k == 5:
        return T.times(RealType)(T.divides(RealType)(t, t), t)          # (t/t)*t = t ?
    return T.plus(RealType)(t, zero)


def poly_goal_list(p, q, n):
    from kernel.term import Eq
    from kernel import term as T
    from kernel.type import RealType
    goals = [('real_norm', Eq(p, q))]
    cmp1 = T.less(RealType)(p, q)
    cmp2 = T.less(RealType)(T.minus(RealType)(p, q), T.Number(RealType, 0))
    goals.append(('real_eq_comparison', Eq(cmp1, cmp2)))
    goals.append(('real_eq_comparison', Eq(T.less_eq(RealType)(p, q), T.greater_eq(RealType)(q, p))))
    goals.append(('real_eq_comparison', Eq(T.less(RealType)(p, q), T.less(RealType)(q, p))))
    # casts: of_nat pushed through a natural-number expression (sound for + and *, not for truncated -)
    from kernel.term import Var, Nat
    from kernel.type import NatType
    nv, mv = Var('n', NatType), Var('m', NatType)
    natexprs = [nv - Nat(1), Nat(2) - nv, mv - nv, nv + mv, nv * mv, (nv - Nat(1)) + Nat(1), nv - nv, (mv - nv) * nv, Nat(2) - Nat(3), Nat(3) - Nat(2), (mv + nv) - nv]
    ne = natexprs[n % len(natexprs)]

    def push(e):
        if e.is_plus() or e.is_minus() or e.is_times():
            return getattr(T, 'plus' if e.is_plus() else 'minus' if e.is_minus() else 'times')(RealType)(push(e.arg1), push(e.arg))
        return T.of_nat(RealType)(e)
    # quotients of equal polynomials: p / p' = 1 is false wherever p vanishes (x / 0 = 0)
    one = T.Number(RealType, 1)
    pc = T.plus(RealType)(p.arg, p.arg1) if p.is_plus() else (T.times(RealType)(p.arg, p.arg1) if p.is_times() else p)
    goals.append(('real_norm', Eq(T.divides(RealType)(p, pc), one)))
    goals.append(('real_norm', Eq(T.plus(RealType)(q, T.divides(RealType)(p, p)), T.plus(RealType)(q, one))))
    goals.append(('real_norm', Eq(T.of_nat(RealType)(ne), push(ne))))
    goals.append(('real_norm', Eq(T.plus(RealType)(T.of_nat(RealType)(ne), p), T.plus(RealType)(p, push(ne)))))
    return goals


def run_poly(u, out):
    from kernel.term import Eq
    from kernel import term as T
    from kernel.type import RealType
    _, tier, seed, lo, hi = u
    rnd = random.Random('c05poly-%s-%s' % (seed, lo))
    for n in range(lo, hi):
        p = poly_exprs(rnd, 3)
        q = rearrange(rnd, p) if rnd.random() < 0.7 else poly_exprs(rnd, 3)
        goals = poly_goal_list(p, q, n)
        for macro, goal in goals:
            th = one_step(macro, goal)
            out['evals'] += 1
            if th is None:
                continue
            out['keys'].add('%s|%r' % (macro, th.prop))
            if os.environ.get('VERIF_TWIN'):
                out['cex'].append({'kind': 'twin', 'part': 'poly', 'seed': seed, 'lo': lo, 'n': n, 'macro': macro})
                continue
            v = oracle().valid(th.hyps, th.prop)
            if v.status == 'invalid':
                out['cex'].append({'kind': 'poly-false', 'part': 'poly', 'seed': seed, 'lo': lo, 'n': n, 'macro': macro, 'goal': repr(goal),
                                   'detail': '%s accepts %s which fails for %s' % (macro, goal, v.model), 'sig': 'poly|%s|%r' % (macro, goal)})
            elif v.status == 'unknown':
                out['inconclusive'] += 1
    out['samples'].append({'poly_goal': str(Eq(p, q))})


def replay_poly(c):
    from kernel.term import Eq
    from kernel import term as T
    from kernel.type import RealType
    rnd = random.Random('c05poly-%s-%s' % (c['seed'], c['lo']))
    for n in range(c['lo'], c['n'] + 1):
        p = poly_exprs(rnd, 3)
        q = rearrange(rnd, p) if rnd.random() < 0.7 else poly_exprs(rnd, 3)
    goals = poly_goal_list(p, q, c['n'])
    for macro, goal in goals:
        if macro == c['macro'] and repr(goal) == c['goal']:
            th = one_step(macro, goal)
            if th is None:
                return False, 'rejected now'
            v = oracle().valid(th.hyps, th.prop)
            return v.status == 'invalid', 'check_proof accepts one-step `%s %s`; counter-model %s' % (macro, goal, v.model)
    return False, 'goal not regenerated'


# ------------------------------------------------------------------ part 3: floating point

FP_TEMPLATES = ['sqrt a * sqrt a ~ a', 'sqrt a * sqrt b ~ c', 'sqrt a + sqrt b ~ sqrt c', 'a / sqrt b ~ sqrt c']
FP_RELS = ['less', 'greater', 'less_eq', 'greater_eq', 'eq']


def approx_ast():
    """Map operator-kind -> return-expression AST of real_approx_eval.rec, read from the current source."""
    import inspect
    from data import real
    src = inspect.getsource(real.real_approx_eval)
    tree = ast.parse(src)
    fn = tree.body[0]
    rec = [n for n in fn.body if isinstance(n, ast.FunctionDef) and n.name == 'rec'][0]
    table = {}
    node = rec.body[0]
    while isinstance(node, ast.If):
        test = ast.unparse(node.test)
        table[test] = node.body
        node = node.orelse[0] if node.orelse and isinstance(node.orelse[0], ast.If) else None
    return table


class FPModel:
    """Symbolic evaluation of the return expressions of real_approx_eval.rec over z3 (ints exact, floats IEEE double RNE)."""

    def __init__(self):
        self.table = approx_ast()
        self.rm = z3.RNE()
        self.F = z3.Float64()

    def body_for(self, kind):
        keys = {'plus': 't.is_plus()', 'minus': 't.is_minus()', 'times': 't.is_times()', 'divides': 't.is_divides()', 'uminus': 't.is_uminus()',
                'sqrt': 't.is_comb() and t.head == sqrt', 'abs': 't.is_comb() and t.head == hol_abs', 'number': 't.is_number()'}
        k = keys[kind]
        if k not in self.table:
            raise NotImplementedError('real_approx_eval has no branch `%s`' % k)
        return self.table[k]

    # values: ('int', z3 Int expr) | ('fp', z3 FP expr)
    def to_fp(self, v):
        if v[0] == 'fp':
            return v[1]
        # integer values are 32-bit bit-vectors (8-bit numerals, depth <= 2: no overflow); int -> double is exact below 2^53
        return z3.fpSignedToFP(self.rm, v[1], self.F)

    def ev(self, node, env):
        if isinstance(node, ast.Call):
            fn = ast.unparse(node.func)
            if fn == 'rec':
                arg = ast.unparse(node.args[0])
                return env[arg]
            if fn == 'math.sqrt':
                return ('fp', z3.fpSqrt(self.rm, self.to_fp(self.ev(node.args[0], env))))
            if fn == 'abs':
                v = self.ev(node.args[0], env)
                if v[0] == 'int':
                    return ('int', z3.If(v[1] >= 0, v[1], -v[1]))
                return ('fp', z3.fpAbs(v[1]))
            raise NotImplementedError('call ' + fn)
        if isinstance(node, ast.Name):
            return env[node.id]
        if isinstance(node, ast.Constant):
            return ('int', z3.BitVecVal(node.value, 32))
        if isinstance(node, ast.UnaryOp) and isinstance(node.op, ast.USub):
            v = self.ev(node.operand, env)
            return ('int', -v[1]) if v[0] == 'int' else ('fp', z3.fpNeg(v[1]))
        if isinstance(node, ast.BinOp):
            a, b = self.ev(node.left, env), self.ev(node.right, env)
            op = type(node.op)
            if op in (ast.Add, ast.Sub, ast.Mult) and a[0] == 'int' and b[0] == 'int':
                f = {ast.Add: lambda x, y: x + y, ast.Sub: lambda x, y: x - y, ast.Mult: lambda x, y: x * y}[op]
                return ('int', f(a[1], b[1]))
            fa, fb = self.to_fp(a), self.to_fp(b)
            if op is ast.Add:
                return ('fp', z3.fpAdd(self.rm, fa, fb))
            if op is ast.Sub:
                return ('fp', z3.fpSub(self.rm, fa, fb))
            if op is ast.Mult:
                return ('fp', z3.fpMul(self.rm, fa, fb))
            if op is ast.Div:
                return ('fp', z3.fpDiv(self.rm, fa, fb))     # int / int is also the correctly rounded quotient
            raise NotImplementedError('binop')
        raise NotImplementedError(ast.dump(node))

    def run_branch(self, kind, children):
        """children: values of t.arg1 / t.arg. Executes the branch body (simple assignments, if denom == 0 raise, return)."""
        env = {'t.arg1': children[0] if len(children) == 2 else None, 't.arg': children[-1]}
        side = []
        for st in self.body_for(kind):
            if isinstance(st, ast.Assign):
                env[st.targets[0].id] = self.ev(st.value, env)
            elif isinstance(st, ast.Return):
                return self.ev(st.value, env), side
            elif isinstance(st, ast.If):
                # pattern: if denom == 0: raise ... else: return ...   (possibly elif chain)
                cur = st
                while True:
                    body = cur.body
                    if isinstance(body[0], ast.Raise):
                        cond = ast.unparse(cur.test)
                        if cond == 'denom == 0':
                            d = env['denom']
                            side.append(d[1] != 0 if d[0] == 'int' else z3.Not(z3.fpIsZero(d[1])))
                        else:
                            raise NotImplementedError(cond)
                    elif isinstance(body[0], ast.Return):
                        return self.ev(body[0].value, env), side
                    if cur.orelse:
                        if isinstance(cur.orelse[0], ast.If):
                            cur = cur.orelse[0]
                            continue
                        if isinstance(cur.orelse[0], ast.Return):
                            return self.ev(cur.orelse[0].value, env), side
                    break
            else:
                raise NotImplementedError(ast.dump(st))
        raise NotImplementedError('no return')

    def eval_tree(self, tree, leaves):
        """tree: ('num', name) | (kind, sub...) ; leaves: name -> z3 Int"""
        if tree[0] == 'num':
            return ('int', leaves[tree[1]]), []
        vals, side = [], []
        for s in tree[1:]:
            v, sd = self.eval_tree(s, leaves)
            vals.append(v)
            side += sd
        v, sd = self.run_branch(tree[0], vals)
        return v, side + sd

    def compare(self, rel, a, b):
        """Python comparison semantics between int/float values (exact for int vs float)."""
        if a[0] == 'int' and b[0] == 'int':
            x, y = a[1], b[1]
            return {'less': x < y, 'greater': x > y, 'less_eq': x <= y, 'greater_eq': x >= y, 'eq': x == y}[rel]
        fa, fb = self.to_fp(a), self.to_fp(b)      # ints here are < 2^53: conversion exact, so the comparison is exact
        return {'less': z3.fpLT(fa, fb), 'greater': z3.fpGT(fa, fb), 'less_eq': z3.fpLEQ(fa, fb), 'greater_eq': z3.fpGEQ(fa, fb), 'eq': z3.fpEQ(fa, fb)}[rel]


def template(idx):
    """-> (lhs tree, rhs tree, exact(rel, a, b, c) as z3 Bool over Ints)"""
    N = lambda n: ('num', n)
    if idx == 0:
        lhs, rhs = ('times', ('sqrt', N('a')), ('sqrt', N('a'))), N('a')

        def exact(rel, a, b, c):
            return z3.BoolVal(rel in ('less_eq', 'greater_eq', 'eq'))
    elif idx == 1:
        lhs, rhs = ('times', ('sqrt', N('a')), ('sqrt', N('b'))), N('c')

        def exact(rel, a, b, c):     # sqrt(ab) ~ c  <=>  ab ~ c^2   (all positive)
            x, y = a * b, c * c
            return {'less': x < y, 'greater': x > y, 'less_eq': x <= y, 'greater_eq': x >= y, 'eq': x == y}[rel]
    elif idx == 2:
        lhs, rhs = ('plus', ('sqrt', N('a')), ('sqrt', N('b'))), ('sqrt', N('c'))

        def exact(rel, a, b, c):     # sqrt a + sqrt b ~ sqrt c <=> 2 sqrt(ab) ~ c - a - b =: d
            d = c - a - b
            lt = z3.And(d > 0, 4 * a * b < d * d)
            eq = z3.And(d >= 0, 4 * a * b == d * d)
            return {'less': lt, 'eq': eq, 'less_eq': z3.Or(lt, eq), 'greater': z3.Not(z3.Or(lt, eq)), 'greater_eq': z3.Not(lt)}[rel]
    else:
        lhs, rhs = ('divides', N('a'), ('sqrt', N('b'))), ('sqrt', N('c'))

        def exact(rel, a, b, c):     # a / sqrt b ~ sqrt c <=> a^2 ~ b c
            x, y = a * a, b * c
            return {'less': x < y, 'greater': x > y, 'less_eq': x <= y, 'greater_eq': x >= y, 'eq': x == y}[rel]
    return lhs, rhs, exact


def tree_to_term(tree, vals):
    from kernel.type import RealType
    from kernel.term import Number
    from kernel import term as T
    from data import real
    if tree[0] == 'num':
        return Number(RealType, vals[tree[1]])
    subs = [tree_to_term(s, vals) for s in tree[1:]]
    if tree[0] == 'sqrt':
        return real.sqrt(subs[0])
    return getattr(T, tree[0])(RealType)(*subs)


def fp_validate(fp, rnd, n=300):
    """The FP model must reproduce real_approx_eval bit for bit on concrete terms."""
    from data import real
    trees = [template(i)[0] for i in range(4)] + [template(i)[1] for i in range(4)]
    for _ in range(n):
        tree = rnd.choice(trees)
        vals = {k: rnd.randint(1, 255) for k in 'abc'}
        want = real.real_approx_eval(tree_to_term(tree, vals))
        v, side = fp.eval_tree(tree, {k: z3.BitVecVal(x, 32) for k, x in vals.items()})
        if v[0] == 'int':
            got = z3.simplify(v[1]).as_signed_long()
            ok = (got == want) and isinstance(want, int)
        else:
            s = z3.simplify(v[1])
            got = float(eval(str(z3.simplify(z3.fpToReal(s)).as_fraction())))if False else None
            # compare via the IEEE bit pattern
            import struct
            bv = z3.simplify(z3.fpToIEEEBV(s)).as_long()
            ok = struct.pack('>Q', bv) == struct.pack('>d', float(want))
        if not ok:
            return 'FP model disagrees with real_approx_eval on %s with %s' % (tree, vals)
    return None


def run_fp(u, out):
    _, tier, seed, tidx, rel = u
    try:
        fp = FPModel()
        err = fp_validate(fp, random.Random(seed))
    except NotImplementedError as e:
        # the source of real_approx_eval uses a construct the encoder does not know: nothing is guessed
        out['inconclusive'] += 1
        out['stats']['fp_encoder_unsupported'] = str(e)[:200]
        out['evals'] += 1
        return
    if err:
        out['stats'].setdefault('validation_errors', []).append(err)
        return
    out['stats']['fp_model_validated_terms'] = 300
    lhs, rhs, exact = template(tidx)
    a8, b8, c8 = z3.BitVecs('a b c', 8)
    a, b, c = z3.ZeroExt(24, a8), z3.ZeroExt(24, b8), z3.ZeroExt(24, c8)
    leaves = {'a': a, 'b': b, 'c': c}
    lv, s1 = fp.eval_tree(lhs, leaves)
    rv, s2 = fp.eval_tree(rhs, leaves)
    s = z3.Solver()
    s.set('timeout', (40 if tier == 'quick' else 300) * 1000)
    for x in (a8, b8, c8):
        s.add(x != 0)
    if tidx == 0:
        s.add(b8 == 1, c8 == 1)
    for g in s1 + s2:
        s.add(g)
    s.add(fp.compare(rel, lv, rv))
    s.add(z3.Not(exact(rel, a, b, c)))
    import time
    from vlib import smt2
    t0 = time.monotonic()
    tmo = 30 if tier == 'quick' else 400
    out['evals'] += 1
    out['keys'].add('fp|%d|%s' % (tidx, rel))
    # the query is handed to the z3 and cvc5 binaries concurrently under a hard time limit
    r, vals, used = smt2.solve(s.to_smt2(), ['a', 'b', 'c'], tmo, logic='QF_BVFP')
    out['stats']['fp_queries'] = out['stats'].get('fp_queries', 0) + 1
    out['stats']['fp_answered_by_' + str(used)] = out['stats'].get('fp_answered_by_' + str(used), 0) + 1
    if r == 'unknown':
        out['inconclusive'] += 1
    elif r == 'unsat':
        out['stats']['fp_unsat'] = out['stats'].get('fp_unsat', 0) + 1
    elif vals is not None:
        out['cex'].append({'kind': 'fp-false', 'part': 'fp', 'template': tidx, 'rel': rel, 'vals': vals, 'macro': 'const_inequality'})
    if os.environ.get('VERIF_TWIN'):
        out['cex'].append({'kind': 'twin', 'part': 'fp'})
    out['stats']['fp_solver_s'] = round(time.monotonic() - t0, 2)
    out['samples'].append({'fp_template': FP_TEMPLATES[tidx], 'relation': rel, 'numerals': 'symbolic 8-bit'})


def replay_fp(c):
    """Run the real macro on the concrete goal; exact truth by integer arithmetic (independent of z3)."""
    from kernel import term as T
    from kernel.type import RealType
    lhs, rhs, _ = template(c['template'])
    vals = c['vals']
    l, r = tree_to_term(lhs, vals), tree_to_term(rhs, vals)
    rel = c['rel']
    goal = T.Eq(l, r) if rel == 'eq' else getattr(T, rel)(RealType)(l, r)
    th = one_step('const_inequality', goal)
    if th is None:
        return False, 'rejected'
    a, b, cc = vals['a'], vals['b'], vals['c']
    cmpf = {'less': lambda x, y: x < y, 'greater': lambda x, y: x > y, 'less_eq': lambda x, y: x <= y, 'greater_eq': lambda x, y: x >= y, 'eq': lambda x, y: x == y}[rel]
    import decimal
    decimal.getcontext().prec = 60
    D = decimal.Decimal
    lv = {0: D(a).sqrt() * D(a).sqrt(), 1: D(a).sqrt() * D(b).sqrt(), 2: D(a).sqrt() + D(b).sqrt(), 3: D(a) / D(b).sqrt()}[c['template']]
    # exact truth from the squared integer forms
    t = c['template']
    if t == 0:
        truth = rel in ('less_eq', 'greater_eq', 'eq')
    elif t == 1:
        truth = cmpf(a * b, cc * cc)
    elif t == 2:
        d = cc - a - b
        lt = d > 0 and 4 * a * b < d * d
        eq = d >= 0 and 4 * a * b == d * d
        truth = {'less': lt, 'eq': eq, 'less_eq': lt or eq, 'greater': not (lt or eq), 'greater_eq': not lt}[rel]
    else:
        truth = cmpf(a * a, b * cc)
    return (not truth), 'check_proof accepts one-step `const_inequality %s` although the statement is %s' % (goal, truth)


# ------------------------------------------------------------------ units / replay

def units(tier, seed):
    us = []
    for Tn in ('nat', 'int', 'real'):
        n = len(exprs(Tn, 1)) if False else 120
        for lo in range(0, 120, 6):
            us.append(('ground', tier, seed, Tn, 'd1', lo, lo + 6))
        per = 150
        total = 900 if tier == 'quick' else 40000
        for lo in range(0, total, per):
            us.append(('ground', tier, seed, Tn, 'd2', lo, lo + per))
    for Tn in ('nat', 'int', 'real'):
        us.append(('ground', tier, seed, Tn, 'near', 0, 0))
    for Tn in ('int', 'real'):
        nc = len(cast_exprs(Tn)[0])
        for lo in range(0, nc, 8):
            us.append(('ground', tier, seed, Tn, 'cast', lo, lo + 8))
    for Tn in ('nat', 'int', 'real'):
        nf = len(fun_exprs(Tn)[0])
        for lo in range(0, nf, 60):
            us.append(('ground', tier, seed, Tn, 'fun', lo, lo + 60))
    total = 400 if tier == 'quick' else 8000
    for lo in range(0, total, 50):
        us.append(('poly', tier, seed, lo, lo + 50))
    for t in range(4):
        for rel in FP_RELS:
            if tier == 'quick' and not (t == 0 or (t == 1 and rel in ('less', 'greater')) or (t == 3 and rel == 'less')):
                continue
            us.append(('fp', tier, seed, t, rel))
    random.Random(seed).shuffle(us)
    us.sort(key=lambda u: 0 if u[0] == 'fp' else 1)
    return us


def run_unit(u):
    out = {'evals': 0, 'keys': set(), 'cex': [], 'samples': [], 'inconclusive': 0, 'stats': {}}
    if u[0] == 'ground':
        run_ground(u, out)
    elif u[0] == 'poly':
        run_poly(u, out)
    else:
        run_fp(u, out)
    o = ORACLE
    if o is not None:
        out['stats'].update({'oracle_calls': o.calls, 'oracle_queries': o.queries, 'oracle_s': round(o.seconds, 3)})
        o.calls = o.queries = 0
        o.seconds = 0.0
    out['keys'] = list(out['keys'])
    return out


def replay(c):
    if c['kind'] == 'twin':
        return True, 'twin'
    if c.get('part') == 'fp':
        return replay_fp(c)
    if c.get('part') == 'poly':
        return replay_poly(c)
    if c['depth'] == 'near':
        a, b = near_exprs(c['type'])[c['i']]
        goal = mk_goal(c['rel'], *((a, b) if not c['j'] else (b, a)))
    elif c['depth'] == 'cast':
        casts, nums = cast_exprs(c['type'])
        goal = mk_goal(c['rel'], casts[c['i']], nums[c['j']])
    elif c['depth'] == 'fun':
        es, nums = fun_exprs(c['type'])
        goal = mk_goal(c['rel'], es[c['i']], nums[c['j']])
    else:
        es = exprs(c['type'], c['depth'])
        goal = mk_goal(c['rel'], es[c['i']], es[c['j']])
    th = one_step(c['macro'], goal)
    if th is None:
        return False, 'rejected'
    if c['kind'] == 'ground-hyps':
        return bool(th.hyps), str(th)
    from vlib.holsmt import ground_eval, Unsupported
    try:
        val = ground_eval(th.prop)
    except Unsupported as e:
        return False, 'independent evaluator cannot decide: %s' % e
    return val is False, 'check_proof accepts one-step `%s %s` and returns %s; exact evaluation of the statement: %s' % (c['macro'], goal, th, val)
