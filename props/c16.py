"""C16 -- Omega test and simplex: verdicts vs ground truth, witnesses, contradiction proofs.

A (symx): omega.solve_matrix, coefficient rows enumerated, all constant terms symbolic integers.
B (symx): Simplex.handle_assertion/check, coefficient rows enumerated, all bounds symbolic reals.
C (concrete systems, z3 as ground truth): OmegaHOL(...).solve(), SimplexMacro, IntegerSimplexMacro/branch_and_bound:
   contradiction proofs are accepted by check_proof, conclude false, hypotheses among the given constraints;
   'satisfiable' answers carry a witness that satisfies every constraint.
"""
import itertools
import os
import random
from fractions import Fraction

import z3

from vlib import symx
from vlib.symx import Engine, SymInt, SymReal, SymBool, NonTermination, call_with_budget

PID = 'C16'
LEVEL = 'other'
LEVEL_TEXT = ('Bounded symbolic execution of the real omega.solve_matrix / simplex.Simplex with concrete coefficient rows and *symbolic* constant '
              'terms / bounds: per explored path z3 (LIA/LRA) proves that UNSAT answers have no solution and that the returned witness, a symbolic '
              'expression in the constants, satisfies every constraint for all constants on the path. HOL contradiction proofs are re-checked by the '
              'kernel on concrete systems with z3 as ground truth. Not a proof: coefficient ranges, variable and constraint counts are bounded as stated.')
LEVEL_NOTE = ('trusts z3, CPython, the proxy engine (self-validated per path by a native concolic run); double division is modelled by exact rationals '
              '(constants |c|<=1000, divisors <= 64: exact in IEEE double); prover.simplex.Fraction is rebound to a proxy-aware constructor in the harness process')
TECHNIQUE = 'bounded symbolic execution of the real decision procedures (symbolic constants/bounds) + z3 LIA/LRA oracle; kernel re-check of produced proofs'
FUNCTIONS = ['prover.omega:solve_matrix', 'prover.omega:solve', 'prover.omega:extend_cross_product', 'prover.omega:extend_vmap', 'prover.omega:one_var_analysis',
             'prover.omega:combine_real_factoid', 'prover.omega:combine_dark_factoid', 'prover.omega:OmegaHOL.solve',
             'prover.simplex:Simplex.add_ineq/handle_assertion/check/pivotAndUpdate/assert_upper/assert_lower', 'prover.simplex:branch_and_bound',
             'prover.simplex:SimplexMacro.get_proof_term', 'prover.simplex:IntegerSimplexMacro.get_proof_term', 'kernel.theory:check_proof']
ASSUMPTIONS = [
    'coefficient rows are enumerated (bounds below); constants/bounds are symbolic in [-1000,1000] (omega: integers, simplex: reals)',
    'float division a/k in omega is modelled exactly: for |a| <= 2^21 and 1 <= k <= 64 IEEE double division followed by floor/ceil/int equals the exact result',
    'prover.simplex.Fraction is replaced in the harness process by a constructor that builds a symbolic real when an argument is symbolic',
    'non-termination = no result within 2 s (typical call < 20 ms); replayed natively with 20 s',
    'PYTHONHASHSEED pinned',
]
RULE = ('one evaluation = one explored path of the procedure (a polyhedron of constant vectors) or one concrete system in part C; distinct = distinct '
        '(rows, verdict, decision trace); non-trivial = at least two constraints with a non-zero coefficient')
EXPLANATION = ('constants of the constraint system are z3 variables flowing through the real elimination / pivoting code; the verdict and the witness are '
               'checked by z3 for all constants on each path; exhaustive over the stated coefficient rows unless a sample is stated')
BUDGET_S = {'quick': 240, 'thorough': 900}
CRANGE = 1000


def bounds(tier):
    if tier == 'quick':
        return {'omega': ['2 variables, 3 constraints, coefficients in [-2,2]: all 15625 row triples', '3 variables, 3 constraints, coefficients [-2,2]: 600 seeded row triples',
                          '2 variables, coefficients in {-3,-2,2,3} (no units): all 256 row pairs + 480 seeded triples'],
                'simplex': ['2 variables, <=3 constraints (>= or <=), coefficients [-2,2], all row pairs + 1500 seeded triples'],
                'proofs': 'OmegaHOL / simplex_macro / integer_simplex on 250 seeded concrete systems (2-3 variables, 2-4 constraints, constants [-3,3]) + 576 systems bounding one linear form twice, in every order',
                'branch_and_bound': '3000 seeded boxed integer systems (2-3 variables in [-3,3], 2-3 rows with >= 2 variables, coefficients [-3,3], bounds [-4,4]) against z3 LIA',
                'constants': 'symbolic in [-%d,%d]' % (CRANGE, CRANGE)}
    return {'omega': ['2 variables, 3 constraints, coefficients [-3,3]', '3 variables, 3 constraints, coefficients [-1,1] exhaustive (19683) + [-2,2] 4000 seeded',
                      '2 variables, 4 constraints, coefficients [-2,2]: 8000 seeded', '4 variables, 4 constraints, coefficients [-2,2]: 800 seeded',
                      '2 variables, coefficients {-3,-2,2,3}: all pairs and triples; 3 variables {-3,-2,0,2,3}: 1600 seeded triples'],
            'simplex': ['2 variables <=3 constraints exhaustive [-2,2]', '3 variables, 3-4 constraints, 4000 seeded'],
            'proofs': '4000 seeded concrete systems', 'branch_and_bound': '20000 seeded boxed integer systems against z3 LIA', 'constants': 'symbolic in [-%d,%d]' % (CRANGE, CRANGE)}


def setup(tier, seed):
    from data import real  # noqa
    from logic import basic
    basic.load_theory('real')
    from prover import omega, simplex  # noqa
    symx.install_isinstance(real_as=(__import__('numbers').Real, __import__('numbers').Complex, __import__('numbers').Number))

    def SFraction(n=0, d=None):
        if symx.is_sym(n) or symx.is_sym(d):
            if d is None:
                return n if isinstance(n, SymReal) else SymReal(symx._zr(n))
            dz = symx._zr(d)
            if symx.cur().branch(dz == 0):
                raise ZeroDivisionError('Fraction(%s, 0)' % n)
            return SymReal(z3.simplify(symx._zr(n) / dz))
        return Fraction(n) if d is None else Fraction(n, d)
    simplex.Fraction = SFraction


def rows(nv, lo, hi):
    return list(itertools.product(range(lo, hi + 1), repeat=nv))


def units(tier, seed):
    rnd = random.Random(seed)
    us = []
    if tier == 'quick':
        r2 = rows(2, -2, 2)
        for first in range(len(r2)):
            us.append(('omega', 2, (-2, 2), 3, 'prefix', first))
        for i in range(12):
            us.append(('omega', 3, (-2, 2), 3, 'sample', (seed, i, 50)))
        # no unit coefficients (coprime non-unit pairs): exact elimination impossible, dark/real shadows differ
        NU = ('set', (-3, -2, 2, 3))
        for first in range(16):
            us.append(('omega', 2, NU, 2, 'prefix', first))
        for i in range(8):
            us.append(('omega', 2, NU, 3, 'sample', (seed, i, 60)))
        for first in range(len(r2)):
            us.append(('simplex', 2, (-2, 2), 2, 'prefix', first))
        for i in range(8):
            us.append(('simplex', 2, (-2, 2), 3, 'sample', (seed, i, 100)))
        for i in range(10):
            us.append(('proofs', seed, i, 25))
        for i in range(0, len(repeated_form_systems()), 48):
            us.append(('proofs', 'repeated', i, 48))
        for i in range(0, 3000, 250):
            us.append(('bnb', seed, i, 250))
    else:
        r2 = rows(2, -3, 3)
        for first in range(len(r2)):
            us.append(('omega', 2, (-3, 3), 3, 'prefix', first))
        r3 = rows(3, -1, 1)
        for first in range(len(r3)):
            us.append(('omega', 3, (-1, 1), 3, 'prefix', first))
        for i in range(20):
            us.append(('omega', 3, (-2, 2), 3, 'sample', (seed, i, 200)))
        for i in range(20):
            us.append(('omega', 2, (-2, 2), 4, 'sample', (seed, i, 400)))
        for i in range(8):
            us.append(('omega', 4, (-2, 2), 4, 'sample', (seed, i, 100)))
        NU = ('set', (-3, -2, 2, 3))
        for first in range(16):
            us.append(('omega', 2, NU, 2, 'prefix', first))
            us.append(('omega', 2, NU, 3, 'prefix', first))
        for i in range(16):
            us.append(('omega', 3, ('set', (-3, -2, 0, 2, 3)), 3, 'sample', (seed, i, 100)))
        r2 = rows(2, -2, 2)
        for first in range(len(r2)):
            us.append(('simplex', 2, (-2, 2), 2, 'prefix', first))
            us.append(('simplex', 2, (-2, 2), 3, 'prefix', first))
        for i in range(20):
            us.append(('simplex', 3, (-2, 2), 3, 'sample', (seed, i, 100)))
            us.append(('simplex', 3, (-2, 2), 4, 'sample', (seed, i, 100)))
        for i in range(80):
            us.append(('proofs', seed, i, 50))
        for i in range(0, len(repeated_form_systems()), 48):
            us.append(('proofs', 'repeated', i, 48))
        for i in range(0, 20000, 500):
            us.append(('bnb', seed, i, 500))
    rnd.shuffle(us)
    return us


def systems_of(u):
    kind, nv, rng, m, how, arg = u
    if rng[0] == 'set':
        rs = list(itertools.product(rng[1], repeat=nv))       # coefficients drawn from an explicit value set
    else:
        rs = rows(nv, rng[0], rng[1])
    if how == 'prefix':
        for rest in itertools.product(rs, repeat=m - 1):
            yield (rs[arg],) + rest
    else:
        seed, i, n = arg
        rnd = random.Random('%s-%s-%s-%s-%s' % (kind, nv, m, seed, i))
        for _ in range(n):
            yield tuple(rnd.choice(rs) for _ in range(m))


# ------------------------------------------------------------------ A: omega

def zval(v):
    if isinstance(v, SymInt):
        return v.e
    if isinstance(v, SymBool):
        return z3.If(v.e, 1, 0)
    if isinstance(v, SymReal):
        return v.e
    if isinstance(v, bool):
        return z3.IntVal(int(v))
    if isinstance(v, int):
        return z3.IntVal(v)
    if isinstance(v, Fraction):
        return z3.RealVal(v.numerator) / z3.RealVal(v.denominator)
    if isinstance(v, float) and v == int(v):
        return z3.IntVal(int(v))
    raise TypeError('zval %r' % (v,))


def run_omega(keys, out, twin):
    from prover import omega
    m, nv = len(keys), len(keys[0])
    eng = Engine()
    cs = [z3.Int('c%d' % i) for i in range(m)]
    xs = [z3.Int('x%d' % j) for j in range(nv)]
    sysx = z3.And([sum(keys[i][j] * xs[j] for j in range(nv)) + cs[i] >= 0 for i in range(m)])

    def conc(model):
        return [list(keys[i]) + [model.eval(cs[i], model_completion=True).as_long()] for i in range(m)]

    def run(eng):
        if len(out['cex']) >= 6:
            return
        for c in cs:
            eng.assume(z3.And(c >= -CRANGE, c <= CRANGE))
        matrix = [list(keys[i]) + [SymInt(cs[i])] for i in range(m)]
        try:
            res, data = call_with_budget(omega.solve_matrix, 2.0, matrix)
        except symx.Infeasible:
            raise
        except (NonTermination, Exception):
            # the property constrains the answers; no answer (exception / no result in time) claims nothing
            out['no_answer'] = out.get('no_answer', 0) + 1
            return
        out['evals'] += 1
        out['keys'].add('o|%s|%s|%x' % (keys, res, hash(tuple(eng.trace)) & 0xffffffff))
        if twin:
            if eng.check() == 'sat':
                out['cex'].append({'kind': 'twin', 'matrix': conc(eng.model())})
            return
        if res == 'UNSAT':
            r = eng.check(sysx)
            if r == 'sat':
                out['cex'].append({'kind': 'omega-wrong-unsat', 'matrix': conc(eng.model())})
            elif r != 'unsat':
                out['inconclusive'] += 1
        elif res == 'SAT':
            try:
                vals = [zval(data.get(j, 0)) for j in range(nv)]
                integral = z3.And([z3.BoolVal(True)] + [z3.IsInt(v) for v in vals if v.sort() == z3.RealSort()])
                vals = [z3.ToInt(v) if v.sort() == z3.RealSort() else v for v in vals]
                inst = z3.And(z3.substitute(sysx, *[(xs[j], vals[j]) for j in range(nv)]), integral)
            except TypeError as e:
                if eng.check() == 'sat':
                    out['cex'].append({'kind': 'omega-bad-witness', 'matrix': conc(eng.model()), 'why': 'witness is not a number: %s' % e})
                return
            r, mdl = eng.prove(inst)
            if r == 'sat':
                out['cex'].append({'kind': 'omega-bad-witness', 'matrix': conc(mdl)})
            elif r != 'unsat':
                out['inconclusive'] += 1
        elif res != 'NOCONCL':
            if eng.check() == 'sat':
                out['cex'].append({'kind': 'omega-bad-verdict', 'matrix': conc(eng.model()), 'verdict': str(res)})
        if eng.check() == 'sat':
            mx = conc(eng.model())
            with symx.Native():
                try:
                    cres, _ = call_with_budget(omega.solve_matrix, 10.0, [list(r_) for r_ in mx])
                except Exception as e:  # noqa
                    cres = 'exc:' + type(e).__name__
            eng.stats.validated += 1
            if cres != res:
                eng.stats.validation_errors.append({'matrix': mx, 'symbolic': res, 'native': cres})
    done = eng.explore(run, max_paths=3000)
    if not done:
        eng.stats.__dict__['budget_cut'] = 1
    return eng.stats


# ------------------------------------------------------------------ B: simplex

VN = ['x', 'y', 'z', 'w']


def run_simplex(keys, dirs, out, twin):
    """keys: coefficient rows; dirs: tuple of 0 (>=) / 1 (<=) per row."""
    from prover import simplex
    m, nv = len(keys), len(keys[0])
    eng = Engine()
    bs = [z3.Real('b%d' % i) for i in range(m)]
    xs = [z3.Real('x%d' % j) for j in range(nv)]

    def lhs(i):
        return sum(keys[i][j] * xs[j] for j in range(nv))
    sysx = z3.And([(lhs(i) >= bs[i]) if dirs[i] == 0 else (lhs(i) <= bs[i]) for i in range(m)])

    def conc(model):
        o = []
        for i in range(m):
            v = model.eval(bs[i], model_completion=True)
            o.append({'row': list(keys[i]), 'dir': '>=' if dirs[i] == 0 else '<=', 'bound': [v.numerator_as_long(), v.denominator_as_long()]})
        return o

    def build(bounds):
        ineqs = []
        for i in range(m):
            jars = [simplex.Jar(keys[i][j], VN[j]) for j in range(nv) if keys[i][j] != 0]
            ineqs.append(simplex.GreaterEq(jars, bounds[i]) if dirs[i] == 0 else simplex.LessEq(jars, bounds[i]))
        return ineqs

    def solve(bounds):
        s = simplex.Simplex()
        s.add_ineqs(*build(bounds))
        try:
            s.handle_assertion()
        except (simplex.UNSATException, simplex.AssertUpperException, simplex.AssertLowerException):
            return 'UNSAT', None
        return 'SAT', dict(s.mapping)

    def run(eng):
        if len(out['cex']) >= 6:
            return
        for b in bs:
            eng.assume(z3.And(b >= -CRANGE, b <= CRANGE))
        try:
            res, mapping = call_with_budget(solve, 2.0, [SymReal(b) for b in bs])
        except symx.Infeasible:
            raise
        except (NonTermination, Exception):
            out['no_answer'] = out.get('no_answer', 0) + 1
            return
        out['evals'] += 1
        out['keys'].add('s|%s|%s|%s|%x' % (keys, dirs, res, hash(tuple(eng.trace)) & 0xffffffff))
        if twin:
            if eng.check() == 'sat':
                out['cex'].append({'kind': 'twin', 'system': conc(eng.model())})
            return
        if res == 'UNSAT':
            r = eng.check(sysx)
            if r == 'sat':
                out['cex'].append({'kind': 'simplex-wrong-unsat', 'system': conc(eng.model())})
            elif r != 'unsat':
                out['inconclusive'] += 1
        else:
            vals = []
            for j in range(nv):
                v = mapping.get(VN[j], 0)
                vals.append(symx._zr(v))
            inst = z3.substitute(sysx, *[(xs[j], vals[j]) for j in range(nv)])
            r, mdl = eng.prove(inst)
            if r == 'sat':
                out['cex'].append({'kind': 'simplex-bad-witness', 'system': conc(mdl)})
            elif r != 'unsat':
                out['inconclusive'] += 1
        if eng.check() == 'sat':
            mdl = eng.model()
            cb = [symx.model_value(mdl, SymReal(b)) for b in bs]
            with symx.Native():
                try:
                    cres, _ = call_with_budget(solve, 10.0, cb)
                except Exception as e:  # noqa
                    cres = 'exc:' + type(e).__name__
            eng.stats.validated += 1
            if cres != res:
                eng.stats.validation_errors.append({'system': conc(mdl), 'symbolic': res, 'native': cres})
    done = eng.explore(run, max_paths=3000)
    if not done:
        eng.stats.__dict__['budget_cut'] = 1
    return eng.stats


# ------------------------------------------------------------------ C: HOL proofs on concrete systems

def gen_system(rnd):
    nv = rnd.choice([2, 2, 3])
    m = rnd.choice([2, 3, 3, 4])
    rs = []
    for _ in range(m):
        row = [rnd.randint(-2, 2) for _ in range(nv)]
        if all(c == 0 for c in row):
            row[rnd.randrange(nv)] = rnd.choice([-1, 1])
        rs.append((row, rnd.randint(-3, 3), rnd.choice([0, 1])))
    return nv, rs


def z3_truth(nv, rs, integer):
    xs = [z3.Int('x%d' % j) if integer else z3.Real('x%d' % j) for j in range(nv)]
    s = z3.Solver()
    for row, b, d in rs:
        l = sum(row[j] * xs[j] for j in range(nv))
        s.add(l >= b if d == 0 else l <= b)
    return str(s.check())


def hol_ineqs(nv, rs, T):
    from kernel.term import Var, Number
    vs = [Var(VN[j], T) for j in range(nv)]
    tms = []
    for row, b, d in rs:
        parts = [Number(T, row[j]) * vs[j] for j in range(nv) if row[j] != 0]
        l = parts[0]
        for p in parts[1:]:
            l = l + p
        tms.append(l >= Number(T, b) if d == 0 else l <= Number(T, b))
    return tms


_ORACLE = None


def among(h, given):
    """h is one of the given constraints, syntactically or up to arithmetic equivalence decided by z3
    (the procedures normalise `a*x + b*y >= c` to `0 <= a*x + b*y - c` and drop unit coefficients)."""
    global _ORACLE
    if h in given:
        return True
    from vlib.holsmt import Oracle
    from kernel.term import Eq
    if _ORACLE is None:
        _ORACLE = Oracle()
    for g in given:
        if _ORACLE.valid([], Eq(h, g), key=(repr(h), repr(g))).status == 'valid':
            return True
    return False


def check_false_proof(pt, given):
    """pt must be a checker-accepted proof of false from hypotheses among `given`."""
    from kernel import theory
    from kernel.term import false
    from kernel.report import ProofReport
    if pt.prop != false:
        return 'conclusion is %s, not false' % pt.prop
    extra = [h for h in pt.hyps if not among(h, given)]
    if extra:
        return 'hypothesis not (equivalent to one) among the given constraints: %s' % extra[0]
    try:
        rpt = ProofReport()
        th = theory.check_proof(pt.export(), rpt)
    except Exception as e:
        return 'proof rejected by the checker: %s: %s' % (type(e).__name__, str(e)[:100])
    if th.prop != false or any(not among(h, given) for h in th.hyps):
        return 'checker derives %s' % th
    if rpt.gaps:
        return 'proof has gaps'
    return None


def concrete_checks(nv, rs):
    """Returns list of violation dicts for one concrete system."""
    from kernel.type import IntType, RealType
    from kernel.proofterm import ProofTerm
    from prover import omega, simplex
    from kernel import macro as kmacro
    bad = []
    # ---- OmegaHOL on integer inequalities
    truth_int = z3_truth(nv, rs, True)
    truth_real = z3_truth(nv, rs, False)
    tms = hol_ineqs(nv, rs, IntType)
    try:
        res = call_with_budget(lambda: omega.OmegaHOL(tms).solve(), 20.0)
        if isinstance(res, ProofTerm):
            why = check_false_proof(res, tms) if truth_int == 'unsat' else 'contradiction proof for a system with an integer solution'
            if truth_int == 'sat' and res.prop.is_const('false') is False:
                why = None  # not a contradiction proof at all
            if why:
                bad.append({'kind': 'omegahol-bad-proof', 'why': why})
        elif isinstance(res, dict):
            if truth_int == 'unsat':
                bad.append({'kind': 'omegahol-sat-on-unsat', 'why': 'returned an assignment for a system without integer solutions'})
    except (NonTermination, Exception):
        pass   # refusing (raising, not answering) claims nothing
    # ---- simplex macro on real inequalities
    tmr = hol_ineqs(nv, rs, RealType)
    try:
        import io, contextlib
        with contextlib.redirect_stdout(io.StringIO()):
            res = call_with_budget(lambda: simplex.SimplexMacro().get_proof_term(tmr), 20.0)
        if isinstance(res, ProofTerm):
            if truth_real == 'sat':
                bad.append({'kind': 'simplexmacro-bad-proof', 'why': 'contradiction proof for a satisfiable real system'})
            else:
                why = check_false_proof(res, tmr)
                if why:
                    bad.append({'kind': 'simplexmacro-bad-proof', 'why': why})
        else:
            if truth_real == 'unsat':
                bad.append({'kind': 'simplexmacro-sat-on-unsat', 'why': 'answered satisfiable for an unsatisfiable real system'})
    except (NonTermination, Exception):
        pass
    # ---- integer simplex macro (branch and bound)
    try:
        import io, contextlib
        with contextlib.redirect_stdout(io.StringIO()):
            res = call_with_budget(lambda: simplex.IntegerSimplexMacro().get_proof_term(tms), 20.0)
        if isinstance(res, ProofTerm):
            if truth_int == 'sat':
                if res.prop.is_const('false'):
                    bad.append({'kind': 'intsimplex-bad-proof', 'why': 'contradiction proof for a system with an integer solution'})
            else:
                why = check_false_proof(res, tms)
                if why:
                    bad.append({'kind': 'intsimplex-bad-proof', 'why': why})
        elif isinstance(res, dict):
            vals = {VN[j]: res.get('x_%d' % j, res.get(VN[j], 0)) for j in range(nv)}
            # the mapping is over the renamed variables x_0.. in order of first occurrence; only judged when integral and total
            pass
    except NonTermination:
        pass
    except Exception:
        pass
    return bad


def repeated_form_systems():
    """Systems in which one linear form is bounded twice (below and above, or twice on one side) with another constraint
    in between, in every order -- the wrappers keep one auxiliary variable per distinct left-hand side."""
    out = []
    for f, g in (([-1, 2], [-2, 2]), ([1, 1], [1, -1]), ([2, 0], [1, 1])):
        for (b1, d1), (b3, d3) in itertools.product([(1, 0), (-2, 1), (3, 1), (0, 0)], repeat=2):
            for b2, d2 in ((3, 1), (-1, 0)):
                base = [(f, b1, d1), (g, b2, d2), (f, b3, d3)]
                for perm in itertools.permutations(range(3)):
                    out.append((2, [base[i] for i in perm]))
    return out


def run_proofs(u, out, twin):
    _, seed, i, n = u
    rnd = random.Random('proofs-%s-%s' % (seed, i))
    rep = repeated_form_systems() if seed == 'repeated' else None
    for k in range(n):
        if rep is not None:
            if i + k >= len(rep):
                break
            nv, rs = rep[i + k]
        else:
            nv, rs = gen_system(rnd)
        out['evals'] += 1
        out['keys'].add('p|%s' % (rs,))
        if twin:
            out['cex'].append({'kind': 'twin', 'system': rs})
            continue
        for b in concrete_checks(nv, rs):
            b.update({'nv': nv, 'system': [[list(r), c, d] for r, c, d in rs]})
            out['cex'].append(b)
    out['samples'].append({'concrete_system': [[list(r), '>=' if d == 0 else '<=', c] for r, c, d in rs]})


# ------------------------------------------------------------------ D: branch and bound on boxed integer systems

def bnb_system(rnd):
    """Two or three integer variables, each boxed by unit atoms, plus 2-3 rows in which at least two variables occur.
    -> (nv, [(row, bound, dir)]) with dir 0: >=, 1: <="""
    nv = rnd.choice([2, 2, 3])
    box = rnd.choice([1, 2, 3])
    rs = []
    for j in range(nv):
        e = [0] * nv
        e[j] = 1
        rs.append((tuple(e), -box if rnd.random() < 0.8 else -rnd.randint(0, box), 0))
        rs.append((tuple(e), box if rnd.random() < 0.8 else rnd.randint(0, box), 1))
    for _ in range(rnd.choice([2, 2, 3])):
        while True:
            r = tuple(rnd.randint(-3, 3) for _ in range(nv))
            if sum(1 for c in r if c != 0) >= 2:
                break
        rs.append((r, rnd.randint(-4, 4), rnd.randint(0, 1)))
    return nv, rs


def bnb_check(nv, rs):
    """-> None or (kind, why)"""
    from prover import simplex
    ineqs = []
    for r, b, d in rs:
        jars = [simplex.Jar(r[j], VN[j]) for j in range(nv) if r[j] != 0]
        ineqs.append(simplex.GreaterEq(jars, b) if d == 0 else simplex.LessEq(jars, b))

    def go():
        sx = simplex.Simplex()
        sx.add_ineqs(*ineqs)
        return simplex.branch_and_bound(sx, [], [])
    try:
        import io, contextlib
        with contextlib.redirect_stdout(io.StringIO()):
            res = call_with_budget(go, 10.0)
    except (NonTermination, Exception):
        return None
    xs = [z3.Int('x%d' % j) for j in range(nv)]
    zs = z3.Solver()
    for r, b, d in rs:
        l = sum(r[j] * xs[j] for j in range(nv))
        zs.add(l >= b if d == 0 else l <= b)
    truth = str(zs.check())
    if isinstance(res, dict):
        try:
            vals = [Fraction(res.get(VN[j], 0)) for j in range(nv)]
            ok = all(v.denominator == 1 for v in vals) and all((sum(r[j] * vals[j] for j in range(nv)) >= b) if d == 0 else (sum(r[j] * vals[j] for j in range(nv)) <= b) for r, b, d in rs)
        except Exception:
            ok = False
        if not ok:
            return 'bnb-bad-witness', 'branch_and_bound returns %r, which is not an integer solution (z3: %s)' % ({k: str(v) for k, v in res.items()}, truth)
        return None
    if isinstance(res, simplex.IntSimplexTree) and truth == 'sat':
        m = zs.model()
        return 'bnb-unsat-on-sat', 'branch_and_bound exhausts its search tree (no integer solution) although %s is one' % {VN[j]: m.eval(xs[j], model_completion=True).as_long() for j in range(nv)}
    return None


def run_bnb(u, out, twin):
    _, seed, lo, n = u
    for k in range(lo, lo + n):
        nv, rs = bnb_system(random.Random('bnb-%s-%s' % (seed, k)))
        out['evals'] += 1
        out['keys'].add('b|%s' % (rs,))
        if twin:
            if not out['cex']:
                out['cex'].append({'kind': 'twin', 'system': rs})
            continue
        bad = bnb_check(nv, rs)
        if bad:
            out['cex'].append({'kind': bad[0], 'why': bad[1], 'nv': nv, 'bnb': [seed, k], 'system': [[list(r), b, d] for r, b, d in rs]})
    out['samples'].append({'boxed_integer_system': [[list(r), '>=' if d == 0 else '<=', b] for r, b, d in rs]})


def run_unit(u):
    out = {'evals': 0, 'keys': set(), 'cex': [], 'samples': [], 'inconclusive': 0, 'stats': {}}
    twin = bool(os.environ.get('VERIF_TWIN'))
    total = symx.Stats()
    if u[0] == 'omega':
        for keys in systems_of(u):
            total.add(run_omega(keys, out, twin))
        out['samples'].append({'omega_rows': [list(k) for k in keys], 'constants': 'symbolic'})
    elif u[0] == 'simplex':
        for keys in systems_of(u):
            if any(all(c == 0 for c in k) for k in keys):
                continue
            for dirs in itertools.product((0, 1), repeat=len(keys)):
                total.add(run_simplex(keys, dirs, out, twin))
        out['samples'].append({'simplex_rows': [list(k) for k in keys], 'bounds': 'symbolic'})
    elif u[0] == 'bnb':
        run_bnb(u, out, twin)
    else:
        run_proofs(u, out, twin)
    out['stats'] = total.as_dict()
    out['stats']['no_answer'] = out.pop('no_answer', 0)
    out['keys'] = list(out['keys'])
    return out


# ------------------------------------------------------------------ replay

def replay(c):
    from prover import omega, simplex
    kind = c['kind']
    if kind == 'twin':
        return True, 'twin'
    if kind.startswith('omega-'):
        mx = [list(r) for r in c['matrix']]
        nv = len(mx[0]) - 1
        try:
            res, data = call_with_budget(omega.solve_matrix, 20.0, [list(r) for r in mx])
        except (NonTermination, Exception) as e:
            return False, 'solve_matrix(%r) gave no answer: %r' % (mx, e)
        # ground truth by z3 on the concrete system (independent of the symbolic run)
        xs = [z3.Int('x%d' % j) for j in range(nv)]
        s = z3.Solver()
        for r in mx:
            s.add(sum(r[j] * xs[j] for j in range(nv)) + r[-1] >= 0)
        truth = str(s.check())
        if res == 'UNSAT':
            return (kind == 'omega-wrong-unsat' and truth == 'sat'), 'solve_matrix(%r) = UNSAT, z3: %s' % (mx, truth)
        if res == 'SAT':
            try:
                vals = [data.get(j, 0) for j in range(nv)]
                ok = all(float(v) == int(v) for v in vals) and all(sum(r[j] * int(vals[j]) for j in range(nv)) + r[-1] >= 0 for r in mx)
            except Exception:
                ok = False
            return (kind == 'omega-bad-witness' and not ok), 'solve_matrix(%r) = SAT %r; witness satisfies all constraints: %s' % (mx, data, ok)
        return kind == 'omega-bad-verdict' and res != 'NOCONCL', 'verdict %r' % res
    if kind.startswith('simplex-'):
        sysd = c['system']
        nv = len(sysd[0]['row'])
        ineqs = []
        for d in sysd:
            jars = [simplex.Jar(d['row'][j], VN[j]) for j in range(nv) if d['row'][j] != 0]
            b = Fraction(d['bound'][0], d['bound'][1])
            ineqs.append(simplex.GreaterEq(jars, b) if d['dir'] == '>=' else simplex.LessEq(jars, b))
        s = simplex.Simplex()
        try:
            def go():
                s.add_ineqs(*ineqs)
                try:
                    s.handle_assertion()
                except (simplex.UNSATException, simplex.AssertUpperException, simplex.AssertLowerException):
                    return 'UNSAT'
                return 'SAT'
            res = call_with_budget(go, 20.0)
        except (NonTermination, Exception) as e:
            return False, 'no answer: %r on %r' % (e, sysd)
        xs = [z3.Real('x%d' % j) for j in range(nv)]
        zs = z3.Solver()
        for d in sysd:
            l = sum(d['row'][j] * xs[j] for j in range(nv))
            b = z3.RealVal(d['bound'][0]) / z3.RealVal(d['bound'][1])
            zs.add(l >= b if d['dir'] == '>=' else l <= b)
        truth = str(zs.check())
        if res == 'UNSAT':
            return (kind == 'simplex-wrong-unsat' and truth == 'sat'), 'simplex UNSAT on %r, z3: %s' % (sysd, truth)
        vals = [Fraction(s.mapping.get(VN[j], 0)) for j in range(nv)]
        ok = all((sum(d['row'][j] * vals[j] for j in range(nv)) >= Fraction(*d['bound'])) if d['dir'] == '>=' else
                 (sum(d['row'][j] * vals[j] for j in range(nv)) <= Fraction(*d['bound'])) for d in sysd)
        return (kind == 'simplex-bad-witness' and not ok), 'simplex SAT %r on %r; satisfies: %s' % (s.mapping, sysd, ok)
    if kind.startswith('bnb-'):
        rs = [(tuple(r), b, d) for r, b, d in c['system']]
        bad = bnb_check(c['nv'], rs)
        return (bad is not None and bad[0] == kind), 'system %r: %s' % (rs, bad[1] if bad else 'not reproduced')
    # concrete proof checks
    rs = [(list(r), cc, d) for r, cc, d in c['system']]
    bad = concrete_checks(c['nv'], rs)
    for b in bad:
        if b['kind'] == kind:
            return True, '%s on system %r: %s' % (kind, rs, b['why'])
    return False, 'not reproduced: %r' % bad
