"""C17 -- congruence closure decides exactly the equalities entailed by the merges.

Inputs (E): sets of <= k equations  a = b  /  f(a,b) = c  over N constants, merged in *every order*, with test/explain
queries on all pairs after every merge (interleavings).  Oracle (S): z3 EUF decides entailment exactly:
  test(s,t) <=> (merged equations |= s = t)            (same answer for every merge order)
  every explanation uses only merged equations, and those equations alone entail the explained equality (second query)
HOL wrapper: curried terms over a,b,c,f,R; explain(s,t) is a checker-accepted theorem of s = t with hypotheses among
the merged equations; test agrees with z3 EUF on the curried terms.
"""
import itertools
import os
import random

import z3

PID = 'C17'
LEVEL = 'other'
LEVEL_TEXT = ('Bounded-exhaustive merge histories (all orders, interleaved queries) through the real CongClosure / CongClosureHOL; the semantic side '
              '("follows by reflexivity, symmetry, transitivity and congruence") is decided by z3 in EUF for every queried pair, and explanations are '
              're-checked by a second EUF query restricted to the equations they cite and by the proof checker.')
LEVEL_NOTE = 'trusts z3 (EUF), the proof checker for the HOL explanations; constants, equation counts and term depth are bounded as stated; names are dictionary keys, so inputs are enumerated, not symbolic'
TECHNIQUE = 'bounded-exhaustive merge/test/explain histories through the real code + z3 EUF entailment oracle (+ kernel re-check of explanations)'
FUNCTIONS = ['prover.congc:CongClosure.merge/_propagate/test/explain/add_var', 'prover.congc:CongClosureHOL.add_term/merge/test/explain', 'kernel.theory:check_proof']
ASSUMPTIONS = ['equations over N constants and one binary symbol; all merge orders of each chosen set; queries on all constant pairs after every merge',
               'HOL wrapper: equations between curried terms of depth <= 2 over a b c f R; merges carry `assume` proof terms',
               'PYTHONHASHSEED pinned']
RULE = 'one evaluation = one merge order of one equation set (with all interleaved queries); distinct = distinct (set, order); non-trivial = at least one f-equation'
EXPLANATION = 'for each history prefix z3 decides entailment of every pair in EUF; the closure\'s answers and explanations must agree for every order'
BUDGET_S = {'quick': 240, 'thorough': 900}


def bounds(tier):
    if tier == 'quick':
        return {'constants': 4, 'equations': '<= 2 exhaustive (2485 sets), 3: 7200 seeded sets (N=4) + 960 (N=5), chains: 256 seeded sets of 5 equations over 6 constants (0-2 f-equations); deep: 192 seeded sets of 9 equations over 10 constants (7 plain + 2 f-equations, 60% of the form f(x,x) = z), 12 seeded orders each', 'orders': 'all', 'hol_sets': 960}
    return {'constants': [4, 5], 'equations': 'N=4: <= 3 exhaustive; N=4: 4 and N=5: 3, 20000 seeded sets each; chains: 4800 sets of 5 equations over 6 constants, 800 sets of 6 over 7; deep: 1280 sets of 9 equations over 10 constants and 240 of 11 over 12, 12 seeded orders each', 'orders': 'all', 'hol_sets': 6000}


def universe(N):
    return [(a, b) for a in range(N) for b in range(a + 1, N)] + [((a, b), c) for a in range(N) for b in range(N) for c in range(N)]


def setup(tier, seed):
    from logic import basic
    basic.load_theory('logic_base')


def units(tier, seed):
    us = []
    if tier == 'quick':
        us.append(('core', 4, 1, 'all', 0, 1))
        for i in range(8):
            us.append(('core', 4, 2, 'all', i, 8))
        for i in range(48):
            us.append(('core', 4, 3, 'sample', (seed, i), 150))
        for i in range(16):
            us.append(('core', 5, 3, 'sample', (seed, i), 60))
        for i in range(16):
            us.append(('core', 6, 5, 'chain', (seed, i), 16))
        for i in range(32):
            us.append(('core', 10, 9, 'deep', (seed, i), 6))
        for i in range(16):
            us.append(('hol', seed, i, 60))
    else:
        us.append(('core', 4, 1, 'all', 0, 1))
        for i in range(8):
            us.append(('core', 4, 2, 'all', i, 8))
        for i in range(64):
            us.append(('core', 4, 3, 'all', i, 64))
        for i in range(80):
            us.append(('core', 4, 4, 'sample', (seed, i), 250))
            us.append(('core', 5, 3, 'sample', (seed, i), 250))
        for i in range(80):
            us.append(('core', 6, 5, 'chain', (seed, i), 60))
            us.append(('core', 7, 6, 'chain', (seed, i), 10))
        for i in range(80):
            us.append(('core', 10, 9, 'deep', (seed, i), 16))
            us.append(('core', 12, 11, 'deep', (seed, i), 3))
        for i in range(60):
            us.append(('hol', seed, i, 100))
    random.Random(seed).shuffle(us)
    return us


_Z = {}


def zctx(N):
    if N not in _Z:
        S = z3.DeclareSort('U')
        f = z3.Function('f', S, S, S)
        cs = [z3.Const('c%d' % i, S) for i in range(N)]
        _Z[N] = (S, f, cs)
    return _Z[N]


def zeq(N, eq):
    S, f, cs = zctx(N)
    l, r = eq
    if isinstance(l, tuple):
        return f(cs[l[0]], cs[l[1]]) == cs[r]
    return cs[l] == cs[r]


def entails(N, eqs, a, b, cache):
    key = (frozenset(eqs), a, b)
    if key not in cache:
        S, f, cs = zctx(N)
        s = z3.Solver()
        for e in eqs:
            s.add(zeq(N, e))
        s.add(cs[a] != cs[b])
        cache[key] = str(s.check()) == 'unsat'
        cache['queries'] = cache.get('queries', 0) + 1
    return cache[key]


def run_order(N, order, cache):
    """Returns a violation description or None."""
    from prover.congc import CongClosure, EQ_CONST, EQ_COMB
    names = ['c%d' % i for i in range(N)]
    cc = CongClosure()
    for nm in names:
        cc.add_var(nm)
    merged = []
    for l, r in order:
        try:
            cc.merge((names[l[0]], names[l[1]]) if isinstance(l, tuple) else names[l], names[r])
        except Exception as e:
            return 'cc-exception', 'merge raised %r' % e
        merged.append((l, r))
        mset = set(merged)
        for a in range(N):
            for b in range(a + 1, N):
                try:
                    got = cc.test(names[a], names[b])
                except Exception as e:
                    return 'cc-exception', 'test raised %r' % e
                want = entails(N, merged, a, b, cache)
                if got != want:
                    return 'cc-test', 'after merging %s: test(%s,%s) = %s but the equations %s it' % (merged, names[a], names[b], got, 'entail' if want else 'do not entail')
                if got:
                    try:
                        ex = cc.explain(names[a], names[b])
                    except Exception as e:
                        return 'cc-explain', 'after merging %s: explain(%s,%s) raised %r' % (merged, names[a], names[b], e)
                    used = set()
                    for path in ex.values():
                        for lab in path:
                            if lab[0] == EQ_CONST:
                                used.add((names.index(lab[1]), names.index(lab[2])))
                            else:
                                for (x1, x2), x in (lab[1], lab[2]):
                                    used.add(((names.index(x1), names.index(x2)), names.index(x)))
                    norm = set()
                    for e in used:
                        if e in mset:
                            norm.add(e)
                        elif not isinstance(e[0], tuple) and (e[1], e[0]) in mset:
                            norm.add((e[1], e[0]))
                        else:
                            return 'cc-explain', 'after merging %s: explanation of %s = %s cites %s which was not merged' % (merged, names[a], names[b], e)
                    if not entails(N, sorted(norm, key=str), a, b, cache):
                        return 'cc-explain', 'after merging %s: the equations cited by the explanation of %s = %s (%s) do not entail it' % (merged, names[a], names[b], sorted(norm, key=str))
    return None


def run_core(u, out, twin):
    _, N, k, how, arg, parts = u
    uni = universe(N)
    cache = {}
    if how == 'all':
        combos = [c for i, c in enumerate(itertools.combinations(uni, k)) if i % parts == arg]
    elif how == 'chain':
        # long chains of plain equations (deep proof forests: several edges reversed per merge), optionally with f-equations mixed in
        rnd = random.Random('c17ch-%s-%s-%s' % (N, k, arg))
        plain = [e for e in uni if not isinstance(e[0], tuple)]
        fe = [e for e in uni if isinstance(e[0], tuple)]
        combos = []
        for _ in range(parts):
            nf = rnd.choice([0, 0, 1, 2])
            combos.append(tuple(rnd.sample(plain, k - nf) + rnd.sample(fe, nf)))
    elif how == 'deep':
        # many constants, classes absorbed several times (use lists moved more than once), applications with both arguments in one
        # class (f(x,x) = z) next to arbitrary ones; a seeded sample of orders per set (always the given and the reversed order)
        rnd = random.Random('c17dp-%s-%s-%s' % (N, k, arg))
        plain = [e for e in uni if not isinstance(e[0], tuple)]
        combos = []
        for _ in range(parts):
            fes = []
            for _j in range(2):
                if rnd.random() < 0.6:
                    x = rnd.randrange(N)
                    fes.append(((x, x), rnd.randrange(N)))
                else:
                    fes.append(((rnd.randrange(N), rnd.randrange(N)), rnd.randrange(N)))
            if fes[0] == fes[1]:
                continue
            combos.append(tuple(rnd.sample(plain, k - 2) + fes))
    else:
        rnd = random.Random('c17-%s-%s-%s' % (N, k, arg))
        combos = [tuple(rnd.sample(uni, k)) for _ in range(parts)]
    for eqs in combos:
        answers = None
        if how == 'deep':
            ornd = random.Random('c17dpo-%s' % (eqs,))
            orders = [tuple(eqs), tuple(reversed(eqs))] + [tuple(ornd.sample(eqs, len(eqs))) for _ in range(10)]
        else:
            orders = itertools.permutations(eqs)
        for order in orders:
            out['evals'] += 1
            out['keys'].add('%d|%s' % (N, order))
            if twin:
                out['cex'].append({'kind': 'twin', 'N': N, 'order': [list(e) if not isinstance(e[0], tuple) else [list(e[0]), e[1]] for e in order]})
                break
            bad = run_order(N, order, cache)
            if bad:
                out['cex'].append({'kind': bad[0], 'N': N, 'order': [[list(e[0]) if isinstance(e[0], tuple) else e[0], e[1]] for e in order], 'why': bad[1]})
                break
        if len(out['cex']) >= 8:
            break
    out['stats'] = {'euf_queries': cache.get('queries', 0)}
    if combos:
        out['samples'].append({'constants': N, 'equations': [str(e) for e in combos[-1]], 'orders': '12 seeded' if how == 'deep' else 'all %d' % len(list(itertools.permutations(combos[-1])))})


# ------------------------------------------------------------------ HOL wrapper

_H = {}


def hol_pool():
    if _H:
        return _H
    from kernel.type import TVar, TFun
    from kernel.term import Var
    Ta = TVar('a')
    a, b, c = Var('a', Ta), Var('b', Ta), Var('c', Ta)
    f = Var('f', TFun(Ta, Ta))
    R = Var('R', TFun(Ta, Ta, Ta))
    d0 = [a, b, c]
    d1 = d0 + [f(x) for x in d0] + [R(x, y) for x in d0 for y in d0]
    d2 = d1 + [f(f(x)) for x in d0] + [f(R(a, b)), R(f(a), b), R(a, f(b)), f(R(b, a))]
    S = z3.DeclareSort('HU')
    zf = z3.Function('hf', S, S)
    zR = z3.Function('hR', S, S, S)
    zc = {'a': z3.Const('ha', S), 'b': z3.Const('hb', S), 'c': z3.Const('hc', S)}

    def tz(t):
        if t.is_var():
            return zc[t.name]
        h, args = t.strip_comb()
        if h.name == 'f':
            return zf(tz(args[0]))
        return zR(tz(args[0]), tz(args[1]))
    _H.update({'terms': d2, 'tz': tz, 'queries': d1})
    return _H


def run_hol_case(eq_idx):
    """eq_idx: list of (i,j) index pairs into the pool; merged in the given order."""
    from prover.congc import CongClosureHOL
    from kernel.proofterm import ProofTerm
    from kernel.term import Eq
    from kernel import theory
    H = hol_pool()
    terms, tz = H['terms'], H['tz']
    cl = CongClosureHOL()
    merged = []
    s = z3.Solver()
    for i, j in eq_idx:
        eq = Eq(terms[i], terms[j])
        try:
            cl.merge(terms[i], terms[j], pt=ProofTerm.assume(eq))
        except Exception as e:
            return 'hol-exception', 'merge(%s, %s) raised %r' % (terms[i], terms[j], e)
        merged.append(eq)
        s.add(tz(terms[i]) == tz(terms[j]))
        for x, y in itertools.combinations(H['queries'][:9], 2):
            try:
                got = cl.test(x, y)
            except Exception as e:
                return 'hol-exception', 'test raised %r' % e
            s.push()
            s.add(tz(x) != tz(y))
            want = str(s.check()) == 'unsat'
            s.pop()
            if got != want:
                return 'hol-test', 'after merging %s: test(%s, %s) = %s, EUF says %s' % (merged, x, y, got, want)
            if got and x != y:
                try:
                    pt = cl.explain(x, y)
                    th = theory.check_proof(pt.export())
                except Exception as e:
                    return 'hol-explain', 'after merging %s: explain(%s, %s) is not a checker-accepted proof: %s: %s' % (merged, x, y, type(e).__name__, str(e)[:100])
                if th.prop != Eq(x, y) or any(h not in merged for h in th.hyps) or pt.gaps:
                    return 'hol-explain', 'after merging %s: explain(%s, %s) proves %s (gaps %s)' % (merged, x, y, th, pt.gaps)
    return None


def run_hol(u, out, twin):
    _, seed, i, n = u
    rnd = random.Random('c17hol-%s-%s' % (seed, i))
    H = hol_pool()
    nt = len(H['terms'])
    for _ in range(n):
        k = rnd.choice([1, 2, 2, 3])
        eqs = [(rnd.randrange(nt), rnd.randrange(nt)) for _ in range(k)]
        for order in itertools.permutations(eqs):
            out['evals'] += 1
            out['keys'].add('hol|%s' % (order,))
            if twin:
                out['cex'].append({'kind': 'twin', 'eqs': [list(e) for e in order]})
                break
            bad = run_hol_case(order)
            if bad:
                out['cex'].append({'kind': bad[0], 'eqs': [list(e) for e in order], 'why': bad[1]})
                break
        if len(out['cex']) >= 8:
            break
    out['samples'].append({'hol_equations': ['%s = %s' % (H['terms'][a], H['terms'][b]) for a, b in eqs]})


def run_unit(u):
    out = {'evals': 0, 'keys': set(), 'cex': [], 'samples': [], 'inconclusive': 0, 'stats': {}}
    twin = bool(os.environ.get('VERIF_TWIN'))
    if u[0] == 'core':
        run_core(u, out, twin)
    else:
        run_hol(u, out, twin)
    out['keys'] = list(out['keys'])
    return out


def replay(c):
    if c['kind'] == 'twin':
        return True, 'twin'
    if c['kind'].startswith('hol-'):
        bad = run_hol_case([tuple(e) for e in c['eqs']])
        return (bad is not None and bad[0] == c['kind']), str(bad)
    order = [((tuple(e[0]) if isinstance(e[0], list) else e[0]), e[1]) for e in c['order']]
    bad = run_order(c['N'], order, {})
    return (bad is not None and bad[0] == c['kind']), str(bad)
