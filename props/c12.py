"""C12 -- loading a theory depends only on the library files, not on process history (loader cache logic).

The real loader (logic.basic: load_metadata / get_import_order / load_theory_cache / load_theory, kernel.theory.fresh_theory)
runs against a *virtual library*: logic.basic's `os` and `load_json_data` are replaced by stubs over an in-memory file
system of four small theory files (vc <- vb <- va, vd importing vb and vc).  Environment model:
  * the modification time of every (file, write) is a *symbolic integer* (vlib.symx proxy over z3); the only contract
    is that rewriting a file changes its modification time -- nothing about order or magnitude;
  * file contents are versions of a small pool (changed types, added items, changed import lists, an import cycle);
  * a read can fail once (OSError) to model a load interrupted by an error.
A history is a sequence of operations  load(name[, limit]) / write(name, version) / failing load(name).  After every
history the harness loads a target theory and compares the resulting theory state (types, constants with their types,
theorems, attributes, overloads) with the state a *fresh process* computes for the same file contents (all caches
cleared, same real code).  The two must be identical for every history and for every value of the modification times
on the explored path; a missing limit or an import cycle must raise TheoryException in both.
Because the times are symbolic, each explored path covers all timestamp assignments that take the same branches of
`timestamp == cache['timestamp']`; z3 decides feasibility of each branch (equal only if it is the same write).
"""
import copy
import itertools
import os
import random

import z3

from vlib import symx
from vlib.symx import Engine, SymInt

PID = 'C12'
LEVEL = 'other'
LEVEL_TEXT = ('Bounded symbolic execution of the real theory loader over a virtual library: file modification times are symbolic integers (contract: a rewrite changes the '
              'time), histories of loads / rewrites / failing reads are enumerated up to the stated length, and after each history the loaded theory is compared with what the '
              'same code computes from cold caches. Not a proof: 4 virtual theory files, the listed content versions, histories up to the bound; import side effects of the '
              'real library modules (z3wrapper, real, imp) and multi-user directories are outside the model.')
LEVEL_NOTE = ('trusts the proxy engine and z3 (integer equalities only), and the fresh-cache run of the same loader as the reference; the real library files, module import side effects '
              'and the web server paths (users/) are outside the model')
TECHNIQUE = 'bounded symbolic execution of the real loader with a stubbed file system (symbolic modification times) + differential comparison with a cold-cache load'
FUNCTIONS = ['logic.basic:load_metadata', 'logic.basic:check_topological_sort', 'logic.basic:get_import_order', 'logic.basic:load_theory_cache', 'logic.basic:load_theory',
             'logic.basic:query_item_index', 'kernel.theory:fresh_theory', 'kernel.theory:Theory.unchecked_extend', 'server.items:parse_item']
ASSUMPTIONS = [
    'logic.basic.os and logic.basic.load_json_data are replaced by stubs over an in-memory library of 4 files (username master); contents are versions listed in the harness',
    'modification times are symbolic integers; a write to a file yields a time different from the previous time of that file (nothing else is assumed)',
    'a failing read raises OSError once, during the first read of the named file in that operation',
    'reference = the same loader from a cold start on the final file contents: every module-level container of logic.basic is put back to its import-time value (taken from a private second execution of the module source), before each history and before the reference load',
    'PYTHONHASHSEED pinned',
]
RULE = ('one evaluation = one explored path of one history (all modification times consistent with the path); distinct = distinct (history, target, path); '
        'non-trivial = the history contains at least one write or failing read after a load')
EXPLANATION = 'histories and content versions are enumerated; modification times are z3 integers flowing through the real cache-validity tests'
BUDGET_S = {'quick': 240, 'thorough': 900}

FILES = ['va', 'vb', 'vc', 'vd']


def ax(name, ty):
    return {'ty': 'def.ax', 'name': name, 'type': ty}


def thm(name, prop, vars_=None, attributes=None):
    d = {'ty': 'thm.ax', 'name': name, 'prop': prop, 'vars': vars_ or {}}
    if attributes:
        d['attributes'] = attributes
    return d


VERSIONS = {
    'vc': [
        {'imports': [], 'content': [ax('c0', 'bool')]},
        {'imports': [], 'content': [ax('c0', 'bool'), ax('c1', 'bool')]},
        {'imports': [], 'content': [ax('c0', 'bool => bool')]},
    ],
    'vb': [
        {'imports': ['vc'], 'content': [ax('b0', 'bool => bool'), thm('b_ax', 'c0 = c0')]},
        {'imports': ['vc'], 'content': [ax('b0', 'bool'), thm('b_ax', 'c0 = c0'), thm('b_ax2', 'b0 = b0', attributes=['hint_rewrite'])]},
        {'imports': [], 'content': [ax('b0', 'bool')]},
        {'imports': ['va'], 'content': [ax('b0', 'bool')]},          # closes a cycle va -> vb -> va
    ],
    'va': [
        {'imports': ['vb'], 'content': [ax('a0', 'bool'), thm('a_ax', 'b0 = b0'), thm('a_ax2', 'c0 = c0')]},
        {'imports': ['vb'], 'content': [ax('a0', 'bool => bool'), thm('a_ax', 'b0 = b0')]},
        {'imports': ['vb', 'vc'], 'content': [ax('a0', 'bool'), thm('a_ax2', 'c0 = c0')]},
    ],
    'vd': [
        {'imports': ['vb', 'vc'], 'content': [thm('d_ax', 'b0 = b0'), thm('d_ax2', 'c0 = c0')]},
    ],
}


def bounds(tier):
    return {'virtual_files': FILES, 'versions': {k: len(v) for k, v in VERSIONS.items()}, 'history_length': 3 if tier == 'quick' else 4,
            'histories': 'quick: all histories of <= 2 operations before the final load + 96 cycle-recovery histories (load, close the import cycle, load, reopen it) + 1500 seeded of length 3; thorough: all of length <= 3 + 20000 seeded of length 4',
            'operations': 'load(name) / load(name, limit) / load(name, missing limit) / write(name, version) / failing load(name)', 'modification_times': 'symbolic integers'}


def setup(tier, seed):
    from data import real  # noqa  (fixes the import order used by all checks)
    from logic import basic  # noqa


# ------------------------------------------------------------------ virtual file system

class VFS:
    def __init__(self, eng):
        self.eng = eng
        self.ver = {f: 0 for f in FILES}
        self.epoch = {f: 0 for f in FILES}
        self.fail = None        # file whose next read fails
        self.times = {}

    def mtime(self, f):
        key = (f, self.epoch[f])
        if key not in self.times:
            v = z3.Int('mt_%s_%d' % key)
            # contract: a rewrite changes the modification time
            for (g, e), w in self.times.items():
                if g == f and self.eng is not None:
                    self.eng.assume(v != w.e)
            self.times[key] = SymInt(v) if self.eng is not None else 1000 * FILES.index(f) + self.epoch[f]
        return self.times[key]

    def write(self, f, version):
        self.ver[f] = version
        self.epoch[f] += 1

    def read(self, f):
        if self.fail == f:
            self.fail = None
            raise OSError('injected read failure of %s' % f)
        d = VERSIONS[f][self.ver[f]]
        return {'name': f, 'description': '', 'imports': list(d['imports']), 'content': copy.deepcopy(d['content'])}


class FakePath:
    def __init__(self, vfs):
        self.vfs = vfs

    def join(self, *a):
        return os.path.join(*a)

    def dirname(self, p):
        return os.path.dirname(p)

    def getmtime(self, p):
        return self.vfs.mtime(os.path.basename(p)[:-5])


class FakeOS:
    def __init__(self, vfs):
        self.path = FakePath(vfs)
        self.vfs = vfs

    def listdir(self, d):
        return [f + '.json' for f in FILES]


_PRISTINE = {}


def pristine_reset():
    """Put every module-level container of logic.basic back to its import-time value (what a new process would start with):
    the values come from executing a second, private copy of the module's current source, so state that a changed loader keeps
    in globals of its own is reset as well."""
    import copy
    from logic import basic
    if 'vals' not in _PRISTINE:
        import importlib.util
        spec = importlib.util.spec_from_file_location('logic._basic_pristine_copy', basic.__file__)
        m = importlib.util.module_from_spec(spec)
        spec.loader.exec_module(m)
        _PRISTINE['vals'] = {k: copy.deepcopy(v) for k, v in vars(m).items() if isinstance(v, (dict, list, set)) and not k.startswith('__')}
    for k, v in _PRISTINE['vals'].items():
        cur = getattr(basic, k, None)
        if isinstance(cur, dict) and isinstance(v, dict):
            cur.clear()
            cur.update(copy.deepcopy(v))
        elif isinstance(cur, list) and isinstance(v, list):
            cur[:] = copy.deepcopy(v)
        elif isinstance(cur, set) and isinstance(v, set):
            cur.clear()
            cur.update(copy.deepcopy(v))
        else:
            setattr(basic, k, copy.deepcopy(v))


def install(vfs):
    from logic import basic
    basic.os = FakeOS(vfs)
    basic.load_json_data = lambda filename, username='master': vfs.read(filename)
    pristine_reset()


def uninstall():
    from logic import basic
    import importlib
    basic.os = os
    pristine_reset()

    def load_json_data(filename, username="master"):
        import json
        with open(basic.user_file(filename, username), encoding='utf-8') as f:
            return json.load(f)
    basic.load_json_data = load_json_data


def snapshot():
    """Observable state of the current theory."""
    from kernel import theory
    thy = theory.thy
    d = thy.data if hasattr(thy, 'data') else {}
    out = {}
    for k in ('type_sig', 'term_sig', 'theorems', 'attributes', 'overload'):
        v = d.get(k, {})
        if k == 'theorems':
            out[k] = sorted((str(a), '%s |- %s' % (sorted(repr(h) for h in b.hyps), repr(b.prop))) for a, b in v.items())      # with the types of all constants
        elif isinstance(v, dict):
            out[k] = sorted((str(a), repr(b)) for a, b in v.items())
        else:
            out[k] = repr(v)
    return out


def do_load(name, limit):
    """-> ('ok', snapshot) | ('TheoryException', msg) | ('error', type name)"""
    from logic import basic
    from kernel.theory import TheoryException
    try:
        basic.load_theory(name, limit=limit)
    except TheoryException as e:
        return ('TheoryException', str(e)[:60])
    except OSError as e:
        return ('OSError', str(e)[:60])
    except Exception as e:
        return ('error', '%s: %s' % (type(e).__name__, str(e)[:60]))
    return ('ok', snapshot())


LIMITS = {'va': [None, ('thm.ax', 'a_ax'), ('thm.ax', 'nosuch')], 'vb': [None, ('thm.ax', 'b_ax')], 'vc': [None], 'vd': [None, ('thm.ax', 'd_ax2')]}


def all_ops():
    ops = []
    for f in FILES:
        for lim in LIMITS[f]:
            ops.append(('load', f, lim))
        ops.append(('fail', f))
        for v in range(len(VERSIONS[f])):
            ops.append(('write', f, v))
    return ops


def run_history(hist, target, out, twin):
    """Explore one history symbolically. hist: list of ops; target: (name, limit)."""
    res = {'bad': None}

    def run(eng):
        vfs = VFS(eng)
        install(vfs)
        try:
            for op in hist:
                if op[0] == 'load':
                    do_load(op[1], op[2])
                elif op[0] == 'fail':
                    vfs.fail = op[1]
                    do_load(op[1], None)
                    vfs.fail = None
                else:
                    vfs.write(op[1], op[2])
            got = do_load(*target)
            # reference: cold caches, same contents
            pristine_reset()
            want = do_load(*target)
        finally:
            uninstall()
        out['evals'] += 1
        out['keys'].add('%s|%s|%x' % (hist, target, hash(tuple(eng.trace)) & 0xffffff))
        if twin:
            if len(out['cex']) < 2:
                out['cex'].append({'kind': 'twin', 'history': ser(hist), 'target': ser([target])[0]})
            return
        if want[0] in ('error', 'OSError'):
            out.setdefault('errors', []).append('cold load of %s after %s failed: %s' % (target, hist, want[1]))     # reference unusable: harness problem, not a verdict
            return
        if got[0] != want[0] or (got[0] == 'ok' and got[1] != want[1]):
            if res['bad'] is None:
                res['bad'] = (got, want)
    eng = Engine()
    done = eng.explore(run, max_paths=64)
    if res['bad'] is not None:
        got, want = res['bad']
        out['cex'].append({'kind': classify(hist, got, want), 'history': ser(hist), 'target': ser([target])[0], 'detail': describe(hist, target, got, want)})
    return eng.stats


def ser(ops):
    return [[x if not isinstance(x, tuple) else list(x) for x in op] for op in ops]


def deser(ops):
    return [tuple(tuple(x) if isinstance(x, list) else x for x in op) for op in ops]


def diff(a, b):
    out = []
    for k in a:
        if a[k] != b[k]:
            sa, sb = set(map(str, a[k])) if isinstance(a[k], list) else {a[k]}, set(map(str, b[k])) if isinstance(b[k], list) else {b[k]}
            out.append('%s: after history only %s, cold only %s' % (k, sorted(sa - sb)[:3], sorted(sb - sa)[:3]))
    return '; '.join(out)


def describe(hist, target, got, want):
    h = ', '.join('%s(%s)' % (op[0], ', '.join(str(x) for x in op[1:] if x is not None)) for op in hist)
    if got[0] == 'ok' and want[0] == 'ok':
        return 'after [%s], load_theory(%s%s) differs from a cold load: %s' % (h, target[0], ', limit=%s' % (target[1],) if target[1] else '', diff(got[1], want[1]))
    return 'after [%s], load_theory(%s%s) gives %s, a cold load gives %s' % (h, target[0], ', limit=%s' % (target[1],) if target[1] else '', got[0] if got[0] == 'ok' else got, want[0] if want[0] == 'ok' else want)


def classify(hist, got, want):
    kinds = [op[0] for op in hist]
    if 'fail' in kinds:
        return 'load-after-failed-load'
    if got[0] != want[0]:
        return 'load-error-differs'
    return 'load-stale-after-write'


def units(tier, seed):
    ops = all_ops()
    targets = [(f, lim) for f in FILES for lim in LIMITS[f]]
    hs = []
    for n in (1, 2):
        for h in itertools.product(ops, repeat=n):
            if any(op[0] != 'load' for op in h) and h[0][0] in ('load', 'fail'):
                hs.append(h)
    if tier != 'quick':
        for h in itertools.product(ops, repeat=3):
            if sum(op[0] != 'load' for op in h) >= 1 and h[0][0] in ('load', 'fail'):
                hs.append(h)
    # recovery from a cycle: load, close the cycle va -> vb -> va, a load that reports it, rewrite vb without the cycle (then the final load)
    cyc = len(VERSIONS['vb']) - 1
    for f1 in FILES:
        for f2 in FILES:
            for v in range(cyc):
                hs.append((('load', f1, None), ('write', 'vb', cyc), ('load', f2, None), ('write', 'vb', v)))
                hs.append((('load', f1, None), ('write', 'vb', cyc), ('load', f2, None), ('write', 'vb', v), ('write', 'vc', 2)))
    rnd = random.Random('c12-%s' % seed)
    n3 = 1500 if tier == 'quick' else 20000
    L = 3 if tier == 'quick' else 4
    for _ in range(n3):
        h = tuple(rnd.choice(ops) for _ in range(L))
        hs.append((('load', rnd.choice(FILES), None),) + h[1:])
    us = []
    per = 60
    for i in range(0, len(hs), per):
        us.append(('hist', tier, seed, i, per))
    _U['hs'] = hs
    _U['targets'] = targets
    return us


_U = {}


def run_unit(u):
    out = {'evals': 0, 'keys': set(), 'cex': [], 'samples': [], 'inconclusive': 0, 'stats': {}}
    _, tier, seed, lo, n = u
    if 'hs' not in _U:
        units(tier, seed)
    hs, targets = _U['hs'], _U['targets']
    twin = bool(os.environ.get('VERIF_TWIN'))
    rnd = random.Random('c12t-%s-%s' % (seed, lo))
    for h in hs[lo:lo + n]:
        # targets: the files touched by the history and their dependants
        touched = {op[1] for op in h}
        ts = [t for t in targets if t[0] in touched or t[0] in ('va', 'vd')]
        for t in (ts if len(h) <= 2 else rnd.sample(ts, min(3, len(ts)))):
            run_history(list(h), t, out, twin)
            if len(out['cex']) >= 30:
                break
    out['samples'].append({'history': ser(list(hs[lo])) if lo < len(hs) else None})
    out['keys'] = list(out['keys'])
    return out


def replay(c):
    if c['kind'] == 'twin':
        return True, 'twin'
    out = {'evals': 0, 'keys': set(), 'cex': [], 'samples': [], 'inconclusive': 0, 'stats': {}}
    run_history(deser(c['history']), deser([c['target']])[0], out, False)
    m = [x for x in out['cex'] if x['kind'] == c['kind']]
    return (True, m[0]['detail']) if m else (False, 'not reproduced')
