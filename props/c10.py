"""C10 -- conversions prove equations about the given term; normal forms are canonical.

Inputs (E): arithmetic expressions over <= 3 variables (nat: + * Suc; int/real: + - * uminus ^k, /c), propositional
formulas over <= 3 atoms, binder terms for the traversal combinators.
For every conversion cv and term t:
 (a) cv.get_proof_term(t) either raises its own error (ConvException) or returns pt with pt.prop an equation whose left
     side is exactly t, no hypotheses, check_proof(pt.export()) accepts the same sequent, and cv.eval(t) reports the same equation;
 (b) (S) the equation is valid in every model (holsmt: LIA/NRA with nat guards, propositional);
 (c) canonicity with the solver as oracle (S): for pairs (e1, e2) that z3 proves equal as polynomials for all values (rearrangements by
     associativity/commutativity/distribution and independent pairs) the normal forms are identical; conjunctions/disjunctions
     with the same set of members get identical normal forms;
 (d) idempotence: norm(norm(e)) = norm(e).
"""
import itertools
import os
import random
from fractions import Fraction

import z3

PID = 'C10'
LEVEL = 'other'
LEVEL_TEXT = ('Conversions are run on enumerated/seeded terms; the returned equation is re-checked by the kernel and decided valid by an SMT solver for all variable '
              'values; canonicity is judged on pairs the solver proves equal as polynomials (so "equal as polynomials" is solver-decided, not assumed from the way the '
              'pair was generated). Term size is a stated bound.')
LEVEL_NOTE = 'trusts z3 (NRA/LIA), holsmt, the proof checker as oracle for "checker-accepted"; deeper terms, more variables and conversions not listed are outside the claim'
TECHNIQUE = 'enumerated terms through the real conversions + kernel re-check + SMT validity/equality oracle for canonicity'
FUNCTIONS = ['logic.conv:Conv.eval/get_proof_term, then_conv, else_conv, try_conv, top_conv, bottom_conv, top_sweep_conv, abs_conv, arg_conv, binop_conv, beta_conv, eta_conv, rewr_conv',
             'data.nat:norm_full', 'data.integer:int_norm_conv/simp_full/omega_form_conv', 'data.real:real_norm_conv/real_eval_conv', 'data.proplogic:nnf_conv/norm_full/sort_conj/sort_disj',
             'logic.logic:conj_norm/disj_norm', 'kernel.theory:check_proof']
ASSUMPTIONS = ['expressions: depth <= 3 over x y z, numerals 0..3 (real also 1/2); nat without subtraction (canonicity claim of the property is about polynomials)',
               'conversions that raise ConvException (their own error class) make no claim; any other exception class is reported',
               'canonicity pairs: e2 is a seeded rearrangement of e1 or an independent expression; the pair is judged only if z3 proves e1 = e2 for all values']
RULE = ('one evaluation = one (conversion, term) application or one canonicity pair; distinct = distinct (conversion, term); non-trivial = the conversion returned an equation '
        '(it was then re-checked and sent to the oracle)')
EXPLANATION = 'equations returned by conversions are decided valid by z3 for all variable values; polynomial equality of canonicity pairs is decided by z3 before the normal forms are compared'
BUDGET_S = {'quick': 240, 'thorough': 900}


def bounds(tier):
    n = 250 if tier == 'quick' else 6000
    return {'arith_terms_per_type': n, 'canonicity_pairs_per_type': n, 'prop_formulas': n, 'binder_terms': 22, 'monomial_sums': 'all sums of 2 and 3 of 12 monomials over x y (degree <= 4), every order and nesting, nat and real', 'depth': 3}


def setup(tier, seed):
    from data import real, nat, integer, proplogic  # noqa
    from logic import basic
    basic.load_theory('real')


ORACLE = None


def oracle():
    global ORACLE
    if ORACLE is None:
        from vlib.holsmt import Oracle
        ORACLE = Oracle(timeout_ms=3000)
    return ORACLE


# ------------------------------------------------------------------ generators

def gen_arith(rnd, Tn, depth):
    from kernel.type import NatType, IntType, RealType
    from kernel.term import Var, Number, Nat, Const, TFun
    from kernel import term as T
    ty = {'nat': NatType, 'int': IntType, 'real': RealType}[Tn]
    vs = [Var(n, ty) for n in 'xyz']
    nums = [Number(ty, k) for k in (0, 1, 2, 3)] + ([Number(ty, Fraction(1, 2))] if Tn == 'real' else [])
    if Tn in ('real', 'int'):
        # casts of natural-number expressions (truncated subtraction must survive normalisation of the enclosing real / int term)
        nn, mm = Var('n', NatType), Var('m', NatType)
        one, two, three = Nat(1), Nat(2), Nat(3)
        nums += [T.of_nat(ty)(e) for e in (one - two, mm * (one - three), (two - three) + nn, nn - one, three - two, nn + mm)]

    def g(d):
        if d == 0 or rnd.random() < 0.25:
            return rnd.choice(vs + vs + nums)
        ops = ['plus', 'times', 'plus', 'times']
        if Tn != 'nat':
            ops += ['minus', 'uminus', 'pow']
        else:
            ops += ['Suc']
        if Tn == 'real':
            ops += ['divc']
        op = rnd.choice(ops)
        if op == 'uminus':
            return T.uminus(ty)(g(d - 1))
        if op == 'Suc':
            return Const('Suc', TFun(NatType, NatType))(g(d - 1))
        if op == 'pow':
            return T.nat_power(ty)(g(d - 1), Nat(rnd.choice([0, 1, 2])))
        if op == 'divc':
            return T.divides(ty)(g(d - 1), Number(ty, rnd.choice([1, 2, 3])))
        return getattr(T, op)(ty)(g(d - 1), g(d - 1))
    return g(depth)


def rearrange(rnd, t, Tn):
    """Random walk of semantics-preserving rewrites (AC, distribution); z3 re-proves equality anyway."""
    from kernel import term as T
    ty = t.get_type()

    def rw(u):
        if u.is_plus() and rnd.random() < 0.5:
            return T.plus(ty)(rw(u.arg), rw(u.arg1))
        if u.is_times() and rnd.random() < 0.5:
            return T.times(ty)(rw(u.arg), rw(u.arg1))
        if u.is_times() and u.arg.is_plus() and rnd.random() < 0.6:
            return T.plus(ty)(T.times(ty)(rw(u.arg1), rw(u.arg.arg1)), T.times(ty)(rw(u.arg1), rw(u.arg.arg)))
        if u.is_plus() and u.arg.is_plus() and rnd.random() < 0.6:
            return T.plus(ty)(T.plus(ty)(rw(u.arg1), rw(u.arg.arg1)), rw(u.arg.arg))
        if u.is_plus() and u.arg1.is_plus() and rnd.random() < 0.6:
            return T.plus(ty)(rw(u.arg1.arg1), T.plus(ty)(rw(u.arg1.arg), rw(u.arg)))
        if u.is_comb() and not u.is_number():
            try:
                return u.head(*[rw(a) if a.get_type() == ty else a for a in u.args])
            except Exception:
                return u
        return u
    return rw(t)


def arith_conv(Tn):
    from data import nat, integer, real
    return {'nat': ('nat.norm_full', nat.norm_full()), 'int': ('integer.int_norm_conv', integer.int_norm_conv()), 'real': ('real.real_norm_conv', real.real_norm_conv())}[Tn]


def gen_prop(rnd, depth, atoms):
    from kernel.term import Not, And, Or, Implies, Eq, true, false
    def g(d):
        if d == 0 or rnd.random() < 0.25:
            return rnd.choice(atoms + atoms + [true, false])
        op = rnd.choice(['not', 'and', 'or', 'and', 'or', 'eq'])
        if op == 'not':
            return Not(g(d - 1))
        if op == 'eq':
            return Eq(g(d - 1), g(d - 1))
        return (And if op == 'and' else Or)(g(d - 1), g(d - 1))
    return g(depth)


# ------------------------------------------------------------------ core check

def apply_conv(name, cv, t):
    """-> (status, pt or message). status in 'eq', 'own-error', 'bad'"""
    from logic.conv import ConvException
    from kernel.proofterm import ProofTerm, TacticException
    from logic.matcher import MatchException
    try:
        pt = cv.get_proof_term(t)
    except (ConvException, MatchException, TacticException, NotImplementedError):
        return 'own-error', None
    except AssertionError as e:
        return 'own-error', None
    except Exception as e:
        return 'bad', 'conversion %s on %s raised %s: %s' % (name, t, type(e).__name__, str(e)[:100])
    if not isinstance(pt, ProofTerm):
        return 'bad', 'conversion %s on %s returned %r' % (name, t, pt)
    return 'eq', pt


def check_conv(name, cv, t, out, rec, semantic=True):
    """All of (a),(b) for one application. Returns the rhs or None."""
    from kernel import theory
    out['evals'] += 1
    st, pt = apply_conv(name, cv, t)
    if st == 'own-error':
        return None
    if os.environ.get('VERIF_TWIN'):
        if len(out['cex']) < 3:
            out['cex'].append(dict(rec, kind='twin'))
        return None
    if st == 'bad':
        out['cex'].append(dict(rec, kind='conv-exception:' + name, detail=pt))
        return None
    out['keys'].add('%s|%r' % (name, t))
    if not (pt.prop.is_equals() and pt.prop.lhs == t):
        out['cex'].append(dict(rec, kind='conv-lhs:' + name, detail='%s on %s returns %s whose left side is not the input' % (name, t, pt.th)))
        return None
    if pt.hyps:
        out['cex'].append(dict(rec, kind='conv-hyps:' + name, detail='%s on %s returns hypotheses %s' % (name, t, pt.hyps)))
        return None
    try:
        th = theory.check_proof(pt.export())
        if th.prop != pt.prop or th.hyps:
            out['cex'].append(dict(rec, kind='conv-proof:' + name, detail='%s on %s: proof term claims %s, checker derives %s' % (name, t, pt.th, th)))
            return None
    except Exception as e:
        out['cex'].append(dict(rec, kind='conv-proof:' + name, detail='%s on %s: exported proof of %s rejected: %s: %s' % (name, t, pt.th, type(e).__name__, str(e)[:100])))
        return None
    try:
        ev = cv.eval(t)
        if ev.prop != pt.prop and semantic and ev.prop.is_equals() and ev.prop.lhs == t:
            ve = oracle().valid([], ev.prop)
            if ve.status == 'invalid':
                out['cex'].append(dict(rec, kind='conv-eval-invalid:' + name, detail='%s on %s: eval reports %s, which fails for %s' % (name, t, ev, ve.model)))
                return None
        if ev.prop != pt.prop:
            out['cex'].append(dict(rec, kind='conv-eval:' + name, term=str(t), eval_rhs=str(ev.prop.rhs), proof_rhs=str(pt.prop.rhs),
                                   detail='%s on %s: eval reports %s, proof term %s' % (name, t, ev, pt.th)))
            return None
    except Exception as e:
        out['cex'].append(dict(rec, kind='conv-eval:' + name, term=str(t), eval_exc=type(e).__name__ + ':' + str(e)[:60],
                               detail='%s on %s: eval raised %r while get_proof_term succeeded' % (name, t, e)))
        return None
    if semantic:
        v = oracle().valid([], pt.prop)
        if v.status == 'invalid':
            out['cex'].append(dict(rec, kind='conv-invalid:' + name, detail='%s on %s returns %s, which fails for %s' % (name, t, pt.th, v.model)))
            return None
        if v.status == 'unknown':
            out['inconclusive'] += 1
    return pt.prop.rhs


def run_arith(u, out):
    _, tier, seed, Tn, lo, n = u
    rnd = random.Random('c10-%s-%s-%s' % (seed, Tn, lo))
    name, cv = arith_conv(Tn)
    from kernel.term import Eq
    for k in range(n):
        e1 = gen_arith(rnd, Tn, 3)
        pair_kind = rnd.choice(['rearr', 'rearr', 'indep'])
        e2 = rearrange(rnd, e1, Tn) if pair_kind == 'rearr' else gen_arith(rnd, Tn, 2)
        rec = {'part': 'arith', 'T': Tn, 'seed': seed, 'lo': lo, 'k': k}
        r1 = check_conv(name, cv, e1, out, dict(rec, which=1))
        r2 = check_conv(name, cv, e2, out, dict(rec, which=2))
        if r1 is None or r2 is None:
            continue
        # (d) idempotence
        st, pt = apply_conv(name, cv, r1)
        if st == 'eq' and pt.prop.rhs != r1:
            out['cex'].append(dict(rec, kind='conv-idempotent:' + name, which=1, detail='%s: normal form %s of %s is normalised further to %s' % (name, r1, e1, pt.prop.rhs)))
        # (c) canonicity, judged only when z3 proves e1 = e2 for all values
        if Tn == 'int':
            continue        # the property claims canonicity for naturals and reals only
        if r1 != r2:
            v = oracle().valid([], Eq(e1, e2))
            out['stats']['canonicity_pairs_proved_equal'] = out['stats'].get('canonicity_pairs_proved_equal', 0) + (1 if v.status == 'valid' else 0)
            if v.status == 'valid':
                out['cex'].append(dict(rec, kind='conv-canonical:' + name, detail='%s: %s and %s are equal for all values but normalise to %s and %s' % (name, e1, e2, r1, r2)))
        else:
            out['stats']['canonicity_pairs_same_nf'] = out['stats'].get('canonicity_pairs_same_nf', 0) + 1
    out['samples'].append({'conversion': name, 'term': str(e1), 'rearranged': str(e2)})


def run_prop(u, out):
    _, tier, seed, lo, n = u
    from kernel.term import BoolVars, And, Or, Not
    from data import proplogic
    from logic import logic
    A, B, C = BoolVars('A B C')
    atoms = [A, B, C]
    rnd = random.Random('c10p-%s-%s' % (seed, lo))
    convs = [('proplogic.nnf_conv', proplogic.nnf_conv()), ('proplogic.norm_full', proplogic.norm_full()), ('proplogic.sort_conj', proplogic.sort_conj()),
             ('proplogic.sort_disj', proplogic.sort_disj()), ('logic.conj_norm', logic.conj_norm()), ('logic.disj_norm', logic.disj_norm())]
    for k in range(n):
        t = gen_prop(rnd, 3, atoms)
        rec = {'part': 'prop', 'seed': seed, 'lo': lo, 'k': k}
        for name, cv in convs:
            check_conv(name, cv, t, out, dict(rec, conv=name))
        # same set of members => same normal form
        lits = [rnd.choice(atoms + [Not(a) for a in atoms]) for _ in range(rnd.choice([2, 3, 4]))]
        perm = list(lits)
        rnd.shuffle(perm)
        perm = perm + [rnd.choice(lits)]          # duplicated member
        for mk, nm, cvs in ((And, 'conj', [('logic.conj_norm', logic.conj_norm()), ('proplogic.norm_full', proplogic.norm_full())]),
                            (Or, 'disj', [('logic.disj_norm', logic.disj_norm()), ('proplogic.norm_full', proplogic.norm_full())])):
            def nest(xs):
                if len(xs) == 1:
                    return xs[0]
                i = rnd.randrange(1, len(xs))
                return mk(nest(xs[:i]), nest(xs[i:]))
            t1, t2 = nest(lits), nest(perm)
            for name, cv in cvs:
                r1 = check_conv(name, cv, t1, out, dict(rec, conv=name, fam=nm, which=1))
                r2 = check_conv(name, cv, t2, out, dict(rec, conv=name, fam=nm, which=2))
                if r1 is not None and r2 is not None and r1 != r2:
                    out['cex'].append(dict(rec, kind='conv-canonical:' + name, conv=name, fam=nm, members=sorted(set(str(l) for l in lits)), nf1=str(r1), nf2=str(r2),
                                           detail='%s: %s and %s have the same members but normalise to %s and %s' % (name, t1, t2, r1, r2)))
    out['samples'].append({'prop_formula': str(t)})


def run_binder(u, out):
    """Traversal combinators with rewriting under binders."""
    _, tier, seed = u
    from kernel.type import NatType, TFun, BoolType
    from kernel.term import Var, Lambda, Forall, Exists, Nat, Eq, Comb, Abs, Bound
    from logic.conv import top_conv, bottom_conv, top_sweep_conv, abs_conv, arg_conv, binop_conv, rewr_conv, beta_conv, eta_conv, try_conv, then_conv, else_conv, beta_norm_conv
    from data import nat
    x, y, z = [Var(n, NatType) for n in 'xyz']
    f = Var('f', TFun(NatType, NatType))
    g = Var('g', TFun(NatType, NatType, NatType))
    terms = [Lambda(x, x + Nat(0)), Lambda(x, Lambda(y, (x + Nat(0)) * (y + Nat(0)))), Forall(x, Eq(x + Nat(0), x)), Exists(x, Eq(f(x + Nat(0)), y)),
             Comb(Lambda(x, x + y), z + Nat(0)), Lambda(x, f(x)), Lambda(x, g(y, x)), Lambda(y, Lambda(x, g(x, y + Nat(0)))), f(Nat(0) + x), Lambda(x, Comb(Lambda(y, y + x), x)),
             Forall(x, Forall(y, Eq(x + y + Nat(0), y + x))), Lambda(x, Nat(0) + (Nat(0) + x)), Comb(Lambda(x, Lambda(y, x + y)), y), Lambda(x, f(Comb(Lambda(z, z + Nat(0)), x)))]
    # binders whose recorded name clashes with a free variable of the body (as produced by capture-avoiding
    # substitution under a binder), shadowed binders of the same name, and the same under quantifiers
    u, w = Var('u_', NatType), Var('w_', NatType)
    ab = lambda nm, v, body: Abs(nm, NatType, body.abstract_over(v))      # binder named nm regardless of the free variables of body
    allc = lambda a: Forall(x, Eq(x, x)).fun(a)
    exc = lambda a: Exists(x, Eq(x, x)).fun(a)
    terms += [ab('x', u, u + Nat(0) + x), allc(ab('x', u, Eq(u + Nat(0), x))), ab('y', w, ab('x', u, u + Nat(0) + w + x)),
              ab('x', w, ab('x', u, u + Nat(0) + w)), ab('x', u, f(u) + (x + Nat(0))), exc(ab('y', u, Eq(Nat(0) + u, y + x))),
              ab('x', w, ab('y', u, g(w + Nat(0), u) + (x + y))), Comb(ab('x', w, ab('x', u, w + u + x)), x + Nat(0))]
    rws = [('add_0_right', rewr_conv('add_0_right')), ('add_0_left', rewr_conv('add_0_left')), ('add_comm', rewr_conv('add_comm')), ('beta', beta_conv()), ('eta', eta_conv()),
           ('norm_full', nat.norm_full())]
    combs = [('top_conv', top_conv), ('bottom_conv', bottom_conv), ('top_sweep_conv', top_sweep_conv), ('abs_conv', abs_conv), ('arg_conv', arg_conv), ('binop_conv', binop_conv),
             ('try', try_conv), ('abs+top', lambda c: abs_conv(top_conv(try_conv(c))))]
    for ti, t in enumerate(terms):
        for rn, rc in rws:
            for cn, cc in combs:
                if rn == 'add_comm' and cn in ('top_conv', 'bottom_conv', 'abs+top'):
                    continue      # does not terminate by design
                name = '%s(%s)' % (cn, rn)
                check_conv(name, cc(rc), t, out, {'part': 'binder', 'term': ti, 'rw': rn, 'comb': cn})
        check_conv('beta_norm_conv', beta_norm_conv(), t, out, {'part': 'binder', 'term': ti, 'rw': 'beta_norm', 'comb': 'none'})
    # rewriting with higher-order-pattern theorems (the instance is beta-normalised inside rewr_conv) on inputs that carry their
    # own redexes inside and outside the matched part
    from kernel.term import Not, And
    Q = Var('Q', TFun(NatType, BoolType))
    R = Var('R', TFun(NatType, NatType, BoolType))
    A = Var('A', BoolType)
    a = Var('a', NatType)
    red = lambda v, body, arg: Comb(Lambda(v, body), arg)
    hterms = [Not(Forall(a, Q(a))), Not(Forall(a, red(x, Q(x), a))), Not(Exists(a, red(x, Q(x + Nat(0)), a))), And(A, Not(Forall(a, red(x, Q(x), a)))),
              Not(Forall(a, R(a, red(y, y, a)))), Lambda(z, Not(Forall(a, red(x, R(z, x), a)))), Not(Exists(a, Q(red(x, x, a)))), Not(Forall(a, red(x, Q(x), red(y, y, a)))),
              Not(Not(Exists(a, red(x, Q(x), a)))), red(z, Not(Forall(a, R(z, a))), Nat(0)), Not(Forall(a, Forall(z, red(x, R(x, z), a))))]
    hrws = [('not_all', rewr_conv('not_all')), ('not_exists', rewr_conv('not_exists')), ('not_all_sym', rewr_conv('not_all', sym=True)), ('double_neg', rewr_conv('double_neg'))]
    hcombs = combs + [('then_beta', lambda c: then_conv(top_conv(try_conv(c)), beta_norm_conv())), ('else_beta', lambda c: else_conv(c, beta_norm_conv()))]
    for ti, t in enumerate(hterms):
        for rn, rc in hrws:
            check_conv(rn, rc, t, out, {'part': 'binder', 'term': 1000 + ti, 'rw': rn, 'comb': 'none'})
            for cn, cc in hcombs:
                check_conv('%s(%s)' % (cn, rn), cc(rc), t, out, {'part': 'binder', 'term': 1000 + ti, 'rw': rn, 'comb': cn})
    out['samples'].append({'binder_term': str(terms[1]), 'higher_order_rewrite_term': str(hterms[1])})


def mono_pool(Tn):
    from kernel.type import NatType, RealType
    from kernel.term import Var, Number, Nat
    from kernel import term as T
    ty = {'nat': NatType, 'real': RealType}[Tn]
    x, y = Var('x', ty), Var('y', ty)
    P = lambda a, k: T.nat_power(ty)(a, Nat(k))
    two = Number(ty, 2)
    return [x, y, P(x, 2), x * y, P(y, 2), P(x, 2) * y, x * P(y, 2), P(x, 3), two * x, two, P(x * y, 2), two * P(x, 2)]


def mono_sums(Tn):
    """All sums of 2 and 3 distinct monomials from the pool, in every order and both nestings: one group per subset."""
    pool = mono_pool(Tn)
    groups = []
    for k in (2, 3):
        for sub in itertools.combinations(range(len(pool)), k):
            ts = []
            for perm in itertools.permutations(sub):
                ms = [pool[i] for i in perm]
                if k == 2:
                    ts.append(ms[0] + ms[1])
                else:
                    ts.append(ms[0] + ms[1] + ms[2])
                    ts.append(ms[0] + (ms[1] + ms[2]))
            groups.append(ts)
    return groups


def run_mono(u, out):
    """Canonicity under monomial order: every arrangement of the same sum of monomials has the same normal form
    (the arrangements are equal by associativity/commutativity of +, which z3 re-proves for one pair per group)."""
    _, Tn, lo, hi = u
    from kernel.term import Eq
    name, cv = arith_conv(Tn)
    groups = mono_sums(Tn)
    for gi in range(lo, min(hi, len(groups))):
        ts = groups[gi]
        rec = {'part': 'mono', 'T': Tn, 'group': gi}
        r0 = check_conv(name, cv, ts[0], out, dict(rec, which=0))
        if r0 is None:
            continue
        for j in range(1, len(ts)):
            out['evals'] += 1
            st, pt = apply_conv(name, cv, ts[j])
            if st != 'eq':
                continue
            out['keys'].add('%s|%r' % (name, ts[j]))
            if pt.prop.rhs != r0:
                v = oracle().valid([], Eq(ts[0], ts[j]))
                if v.status == 'valid':
                    out['cex'].append(dict(rec, kind='conv-canonical:' + name, which=j,
                                           detail='%s: %s and %s are equal for all values but normalise to %s and %s' % (name, ts[0], ts[j], r0, pt.prop.rhs)))
                    break
    out['samples'].append({'conversion': name, 'monomial_sum': str(groups[lo][0])})


# ------------------------------------------------------------------ units / replay

def units(tier, seed):
    us = []
    n = 250 if tier == 'quick' else 6000
    for Tn in ('nat', 'int', 'real'):
        for lo in range(0, n, 25):
            us.append(('arith', tier, seed, Tn, lo, 25))
    for lo in range(0, n, 25):
        us.append(('prop', tier, seed, lo, 25))
    us.append(('binder', tier, seed))
    for Tn in ('nat', 'real'):
        ng = len(mono_sums(Tn))
        for lo in range(0, ng, 36):
            us.append(('mono', Tn, lo, lo + 36))
    random.Random(seed).shuffle(us)
    return us


def run_unit(u):
    out = {'evals': 0, 'keys': set(), 'cex': [], 'samples': [], 'inconclusive': 0, 'stats': {}}
    if u[0] == 'arith':
        run_arith(u, out)
    elif u[0] == 'prop':
        run_prop(u, out)
    elif u[0] == 'mono':
        run_mono(u, out)
    else:
        run_binder(u, out)
    o = ORACLE
    if o is not None:
        out['stats'].update({'oracle_calls': o.calls, 'oracle_queries': o.queries, 'oracle_s': round(o.seconds, 3)})
        o.calls = o.queries = 0
        o.seconds = 0.0
    out['keys'] = list(out['keys'])
    return out


def replay(c):
    if c['kind'] == 'twin':
        return True, 'twin'
    out = {'evals': 0, 'keys': set(), 'cex': [], 'samples': [], 'inconclusive': 0, 'stats': {}}
    part = c['part']
    if part == 'arith':
        run_arith(('arith', 'quick', c['seed'], c['T'], c['lo'], c['k'] + 1), out)
        match = [x for x in out['cex'] if x['kind'] == c['kind'] and x['k'] == c['k']]
    elif part == 'prop':
        run_prop(('prop', 'quick', c['seed'], c['lo'], c['k'] + 1), out)
        match = [x for x in out['cex'] if x['kind'] == c['kind'] and x['k'] == c['k']]
    elif part == 'mono':
        run_mono(('mono', c['T'], c['group'], c['group'] + 1), out)
        match = [x for x in out['cex'] if x['kind'] == c['kind']]
    else:
        run_binder(('binder', 'quick', 0), out)
        match = [x for x in out['cex'] if x['kind'] == c['kind'] and x['term'] == c['term'] and x['rw'] == c['rw'] and x['comb'] == c['comb']]
    if match:
        return True, match[0]['detail']
    return False, 'not reproduced'
