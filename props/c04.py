"""C04 -- every proof macro's expansion checks and proves what its evaluation claims.

Macro-agnostic: every registered macro that has an expansion (level >= 1, so the checker expands it at the default
trust level) is offered every (argument, premises) combination from the pools below and rejects what it does not understand.
For every input on which eval succeeds *and* an expansion is produced (macro.expand does not raise):
  * a proof whose premises are stated lines and whose last line invokes the macro (no stated sequent) is checked by
    theory.check_proof at check_level=0 -- the macro is expanded in place and every expanded step re-checked; it must be
    accepted, with the same conclusion as eval reports and no hypotheses beyond eval's;
  * (S) the sequent is valid (premises |= conclusion) by the SMT oracle -- this also catches the case where both paths agree
    on something false.
"""
import itertools
import os
import random

PID = 'C04'
LEVEL = 'exploration'
LEVEL_TEXT = ('Macro-agnostic bounded exploration: all macros with an expansion are offered all argument/premise combinations of the pools; where eval succeeds and an expansion '
              'exists, the checker-driven expansion must be accepted and agree with eval, and an SMT oracle decides validity of the claimed sequent. The oracle for "accepted" '
              'is the real kernel; the semantic side check is solver-decided. Steps of the recorded library proofs (quick: a slice of logic, nat, set, function, list, hoare) are fed to the same oracle as recorded and with an extra hypothesis on every premise.')
LEVEL_NOTE = 'trusts the proof checker (its own soundness is C01/C02), z3/holsmt for the side check; macros that never accept a pool input are exercised only on their rejection path (listed in the evidence)'
TECHNIQUE = 'macro-agnostic bounded exploration: eval vs checker-driven expansion at check_level=0, plus SMT validity of the claimed sequent'
FUNCTIONS = ['kernel.macro:Macro.eval/expand', 'kernel.theory:check_proof (check_level=0, macro expansion branch)', 'kernel.proofterm:ProofTerm.export',
             'logic.logic:<all registered macros>', 'data.nat:nat_norm/nat_const_ineq/nat_const_less/nat_const_less_eq', 'data.function:fun_upd_eval',
             'data.integer:int macros with expansion', 'imperative.imp:eval_Sem/vcg macros', 'logic.auto:auto']
ASSUMPTIONS = ['theory hoare (logic, nat, function, list, int ... loaded); pools of terms, theorem names, (name, term) pairs and premise lists as printed under bounds',
               'premises are offered as stated lines (`sorry`), with and without hypotheses; gaps are allowed in the check because the premises are gaps by construction',
               'an input on which macro.expand raises produces no expansion and is outside the property']
RULE = ('one evaluation = one (macro, argument, premises) triple; distinct = distinct triples on which eval succeeded and an expansion was produced (these were checked and judged); '
        'non-trivial = same')
EXPLANATION = 'see LEVEL_TEXT'
BUDGET_S = {'quick': 240, 'thorough': 900}


def bounds(tier):
    P = pools()
    return {'macros': len(P['macros']), 'arguments': len(P['args']), 'premise_lists': 'singletons + %s seeded pairs + %s triples per macro' % ((20, 5) if tier == 'quick' else (600, 100)), 'harvested_library_steps': [list(h) for h in HARVEST[tier]], 'numeral_and_shape_goals': '%d (numeral edge cases of the arithmetic macros; nat_norm on all pairs of 20 small polynomial sides; intros with assumption / exists-fact premises and argument lists in every order)' % len(numeral_goals()), 'terms': len(P['terms'])}


def setup(tier, seed):
    from data import real  # noqa
    from logic import basic
    basic.load_theory('hoare')
    import logic.logic as L
    L.print = lambda *a, **k: None


_P = {}


def pools():
    if _P:
        return _P
    from kernel.type import NatType, BoolType, TVar, TFun
    from kernel.term import Var, Const, Eq, Not, And, Or, Implies, Forall, Exists, Lambda, Nat, Comb, Inst, true, false
    from kernel.thm import Thm
    from kernel import theory
    p, q, r = Var('p', BoolType), Var('q', BoolType), Var('r', BoolType)
    A = TVar('a')
    a, b = Var('a', A), Var('b', A)
    f = Var('f', TFun(A, A))
    P = Var('P', TFun(A, BoolType))
    x, y = Var('x', NatType), Var('y', NatType)
    u = Var('u', A)
    g = Var('g', TFun(NatType, NatType))
    terms = [p, q, And(p, q), And(q, p), Or(p, q), Or(q, p), Implies(p, q), Not(Not(p)), Not(p), And(p, And(q, p)), Implies(p, And(p, q)), Implies(And(p, q), And(q, p)),
             Implies(And(p, q), p), Implies(Or(p, q), Or(q, p)), Implies(Or(p, q), p), Implies(And(p, And(q, r)), And(r, p)), Implies(p, p), true, false, Implies(false, p),
             Eq(p, q), Eq(x + Nat(0), x), Eq(Nat(2) + Nat(1), Nat(3)), Not(Eq(Nat(2), Nat(3))), Not(Eq(Nat(2), Nat(2))), Nat(2) < Nat(3), Nat(3) < Nat(2), Nat(2) <= Nat(2), Nat(3) <= Nat(2),
             Eq(x * y, y * x), Eq(x * (y + Nat(1)), x * y + x), Eq(x + y, y + x + Nat(1)), Eq(Comb(Lambda(u, f(u)), a), b), Eq(f(a), b), P(Comb(Lambda(u, u), a)), P(a), Forall(u, P(u)),
             Exists(u, P(u)), Forall(u, Implies(P(u), P(f(u)))), Eq(a, b), Eq(b, a), Eq(g(x), y), Eq(x, y), Or(Not(p), q), Not(And(p, q)), Not(Or(p, q)), Implies(Not(Not(p)), p),
             Eq(Nat(0) + x, x), Eq(x + Nat(1), Const('Suc', TFun(NatType, NatType))(x)), x < x + Nat(1)]
    # redexes whose contraction creates a new redex; quantified statements whose body ignores the bound variable
    F1 = Var('F1', TFun(TFun(A, A), A))
    ff = Var('ff', TFun(A, A))
    hoterms = [Eq(Comb(Lambda(ff, ff(a)), Lambda(u, f(u))), b), Eq(Comb(Comb(Lambda(ff, Lambda(u, ff(ff(u)))), Lambda(u, f(u))), a), b), P(Comb(Lambda(ff, ff(a)), Lambda(u, u))),
               Forall(u, p), Exists(u, p), Forall(x, Eq(y, y)), Forall(u, Implies(p, q)), Comb(Lambda(u, p), a), Eq(Comb(Lambda(x, Lambda(y, x + y)), Nat(1)), g)]
    # facts with several quantified variables of which only the first is fixed by the premise
    Q2 = Var('Q2', TFun(A, A, BoolType))
    Q3 = Var('Q3', TFun(A, A, A, BoolType))
    v1, v2 = Var('v1', A), Var('v2', A)
    facts = [Forall(u, Forall(v1, Forall(v2, Implies(P(u), Q3(u, v1, v2))))), Forall(u, Forall(v1, Implies(P(u), Q2(u, v1)))), Forall(u, Forall(v1, Implies(P(v1), Q2(u, v1)))),
             Forall(u, Forall(v1, Forall(v2, Implies(P(v1), Q3(u, v1, v2)))))]
    hoterms = hoterms + facts
    terms = terms + hoterms
    names = [n for n in ('conjI', 'conjD1', 'conjD2', 'disjI1', 'disjI2', 'disjE', 'negE', 'trueI', 'falseE', 'exI', 'allE', 'trivial', 'syllogism', 'contradiction', 'iffI', 'eq_sym_eq',
                         'double_neg', 'conj_comm', 'disj_comm', 'de_morgan_thm1', 'de_morgan_thm2', 'not_imp', 'eq_true', 'disj_conv_imp', 'add_0_right', 'add_0_left', 'add_comm', 'mult_comm',
                         'resolution', 'classical', 'if_P', 'eta_conversion')
             if theory.thy.has_theorem(n)]
    args = [None] + terms + names
    rnd = random.Random(11)
    for n in names:
        for t in rnd.sample(terms, 6):
            args.append((n, t))
    args += [[p], [Exists(u, P(u))], [], (names[0], Inst(A=p, B=q)), ('conjI', Inst(A=q)), ('allE', Inst(x=a))]
    base = [Thm(t) for t in terms[:40]] + [Thm(t) for t in hoterms] + [Thm(t, t) for t in (p, q, And(p, q), P(a), Eq(a, b), Not(p), Implies(p, q))] + [Thm(q, p), Thm(P(a), Forall(u, P(u)))]
    prevs = [[]] + [[t] for t in base] + [[Thm(fc), Thm(P(a))] for fc in facts] + [[Thm(fc, p), Thm(P(a), q)] for fc in facts]
    _P.update({'terms': terms, 'names': names, 'args': args, 'base': base, 'prevs': prevs})
    macs = []
    for name in sorted(theory.global_macros):
        m = theory.global_macros[name]
        if name.startswith('verit_') or name in ('z3', 'sympy'):
            continue
        if m.level is not None and m.level >= 1 and theory.has_macro(name):
            macs.append(name)
    _P['macros'] = macs
    return _P


ORACLE = None


def oracle():
    global ORACLE
    if ORACLE is None:
        from vlib.holsmt import Oracle
        ORACLE = Oracle(timeout_ms=2000)
    return ORACLE


def try_case(name, args, prevs):
    """-> (status, detail). status: 'no-eval' | 'no-expansion' | 'ok' | violation kind"""
    from kernel import theory
    from kernel.proof import Proof, ProofItem, ItemID
    from kernel.thm import Thm
    from vlib.symx import call_with_budget, NonTermination
    mac = theory.global_macros[name]
    try:
        ev = call_with_budget(mac.eval, 10.0, args, list(prevs))
    except (NonTermination, BaseException) as e:
        if isinstance(e, (KeyboardInterrupt, MemoryError)):
            raise
        return 'no-eval', None
    if not isinstance(ev, Thm):
        return 'no-eval', None
    n = len(prevs)
    try:
        sub = call_with_budget(mac.expand, 10.0, ItemID((n,)), args, [(ItemID((i,)), th) for i, th in enumerate(prevs)])
        if sub is None or not sub.items:
            return 'no-expansion', None
    except (NonTermination, BaseException) as e:
        if isinstance(e, (KeyboardInterrupt, MemoryError)):
            raise
        return 'no-expansion', None
    prf = Proof()
    for i, th in enumerate(prevs):
        prf.items.append(ProofItem(i, 'sorry', th=th))
    prf.items.append(ProofItem(n, name, args=args, prevs=list(range(n))))
    try:
        th = call_with_budget(theory.check_proof, 20.0, prf, None, check_level=0)
    except NonTermination:
        return 'no-expansion', None
    except Exception as e:
        return 'expansion-rejected', '%s %s from %s: eval gives %s and an expansion is produced, but the checker rejects it: %s: %s' % (
            name, sarg(args), [str(p) for p in prevs], ev, type(e).__name__, str(e)[:120])
    if th.prop != ev.prop:
        return 'expansion-differs', '%s %s from %s: eval reports %s, the checked expansion proves %s' % (name, sarg(args), [str(p) for p in prevs], ev, th)
    if not set(th.hyps) <= set(ev.hyps):
        return 'expansion-hyps', '%s %s from %s: the checked expansion has hypotheses %s beyond those eval reports (%s)' % (name, sarg(args), [str(p) for p in prevs], th.hyps, ev.hyps)
    hyps = [p.prop for p in prevs] + [h for p in prevs for h in p.hyps]
    v = oracle().valid(hyps, ev.prop)
    if v.status == 'invalid':
        return 'macro-invalid', '%s %s from %s: both eval and the checked expansion give %s, which does not follow from the premises (%s)' % (name, sarg(args), [str(p) for p in prevs], ev, v.model)
    if v.status == 'unknown':
        return 'ok-unknown', None
    return 'ok', None


def sarg(a):
    try:
        if isinstance(a, tuple):
            return '(%s)' % ', '.join(str(x) for x in a)
        if isinstance(a, list):
            return '[%s]' % ', '.join(str(x) for x in a)
        return str(a)
    except Exception:
        return repr(a)


HARVEST = {'quick': [('logic', 0, 30), ('logic', 30, 60), ('function', 0, 40), ('list', 0, 20), ('hoare', 0, 20)] + [('set', i, i + 10) for i in range(0, 100, 10)] + [('nat', i, i + 10) for i in range(0, 120, 10)],
           'thorough': [(t, i, i + 20) for t, n in (('logic', 60), ('nat', 240), ('function', 40), ('set', 120), ('list', 60), ('hoare', 20), ('int', 120), ('real', 200), ('logic_base', 40)) for i in range(0, n, 20)]}


def units(tier, seed):
    P = pools()
    us = [('mac', tier, seed, mi) for mi in range(len(P['macros']))]
    us += [('harv', tier, seed) + h for h in HARVEST[tier]]
    nn = len(numeral_goals())
    us += [('num', tier, seed, lo, lo + 120) for lo in range(0, nn, 120)]
    random.Random(seed).shuffle(us)
    us.sort(key=lambda u: 0 if u[0] == 'harv' else 1)        # the harvesting units are the longest: start them first
    return us


# ------------------------------------------------------------------ inputs harvested from the recorded library proofs (+ hypothesis mutations)

def harvest(theory_name, lo, hi):
    """(macro, args, premise theorems) of every expanding-macro step in the proofs of theorems lo..hi of a library theory."""
    from logic import basic, context
    from kernel import theory
    from server import server
    out = []

    def walk(prf, env):
        for it in prf.items:
            env[str(it.id)] = it
            if it.subproof:
                walk(it.subproof, env)
            m = theory.global_macros.get(it.rule)
            if m is not None and m.level is not None and m.level >= 1 and it.th is not None:
                try:
                    prevs = [env[str(q)].th for q in it.prevs]
                except KeyError:
                    continue
                if all(q is not None for q in prevs):
                    out.append((it.rule, it.args, prevs))
    basic.load_theory(theory_name)
    content = [it for it in basic.theory_cache['master'][theory_name]['content'] if it.ty == 'thm' and (it.steps or it.proof)]
    for it in content[lo:hi]:
        here = len(out)
        basic.load_theory(theory_name, limit=('thm', it.name))
        try:
            context.set_context(None, vars=it.vars)
            if it.proof:
                state = server.parse_proof(it.proof)
            else:
                state = server.parse_init_state(it.prop)
                state.parse_steps(it.steps)
            state.check_proof()
            walk(state.prf, {})
        except Exception:
            continue
        for k in range(here, len(out)):
            out[k] = out[k] + ((theory_name, it.name),)
    return out


def run_harvest(u, out):
    from kernel.thm import Thm
    from kernel.term import Var
    from kernel.type import BoolType
    from logic import basic
    _, tier, seed, thy, lo, hi = u
    cases = harvest(thy, lo, hi)
    seen = set()
    cur = None
    n_ok = 0
    for (name, args, prevs, where) in cases:
        if where != cur:
            basic.load_theory(where[0], limit=('thm', where[1]))       # the theory the step was recorded in
            cur = where
        key = (name, repr(args), tuple(repr(q.prop) + repr(q.hyps) for q in prevs))
        if key in seen:
            continue
        seen.add(key)
        variants = [('as-recorded', prevs)]
        if prevs:
            variants.append(('extra-hyps', [Thm(q.prop, *(tuple(q.hyps) + (Var('hh%d' % i, BoolType),))) for i, q in enumerate(prevs)]))
        for vn, pv in variants:
            out['evals'] += 1
            if os.environ.get('VERIF_TWIN'):
                if not out['cex']:
                    out['cex'].append({'kind': 'twin', 'macro': name})
                continue
            st, detail = try_case(name, args, pv)
            if st in ('no-eval', 'no-expansion'):
                continue
            n_ok += 1
            out['keys'].add('h|%s|%s|%s' % (key[0], hash(key) & 0xffffffff, vn))
            if st == 'ok-unknown':
                out['inconclusive'] += 1
            elif st != 'ok':
                out['cex'].append({'kind': st + ':' + name, 'part': 'harv', 'theory': thy, 'lo': lo, 'hi': hi, 'thm': where[1], 'variant': vn, 'name': name, 'args': sarg(args), 'detail': detail + ' [step of %s.%s, %s]' % (where[0], where[1], vn)})
        if len(out['cex']) >= 12:
            break
    out['stats'] = {'harvested_steps': len(cases), 'accepted_by_macro': {}}
    out['samples'].append({'theory': thy, 'theorems': [lo, hi], 'harvested_steps': len(cases), 'checked': n_ok})


# ------------------------------------------------------------------ numerals (binary representation edge cases of the arithmetic macros)

_N = {}


def numeral_goals():
    if _N:
        return _N['g']
    from kernel.term import Nat, Eq, Not, Var
    from kernel.type import NatType, TFun
    from kernel import term as T
    g = []
    R = list(range(0, 13)) + [14, 15, 16, 19, 20, 21, 22, 23, 31, 32, 33, 64, 100]
    for m in R:
        for n in R:
            g.append(('nat_const_ineq', Not(Eq(Nat(m), Nat(n))), []))
            g.append(('nat_const_less', T.less(NatType)(Nat(m), Nat(n)), []))
            g.append(('nat_const_less_eq', T.less_eq(NatType)(Nat(m), Nat(n)), []))
    f = Var('f', TFun(NatType, NatType))
    from data.function import mk_fun_upd
    for m in R[:20]:
        for n in R[:20]:
            g.append(('fun_upd_eval', mk_fun_upd(f, Nat(m), Nat(4))(Nat(n)), []))
            g.append(('nat_norm', Eq(Nat(m) + Nat(n), Nat(m + n)), []))
            g.append(('nat_norm', Eq(Nat(m) * Nat(n), Nat(m * n)), []))
    # nat_norm on equations between small polynomial expressions: every pair of (atom | non-atom) sides, both orientations
    x, y = Var('x', NatType), Var('y', NatType)
    Suc = T.Const('Suc', TFun(NatType, NatType))
    sides = [x, y, Nat(0), Nat(2), Nat(0) * y + x, x + Nat(0), Suc(x), x * Nat(1), x + y, y + x, Suc(Nat(1)), Nat(1) + Nat(1), Nat(0) * x + Nat(0), x * y, y * x + Nat(0), Suc(x) + y, Suc(x + y),
             x + Nat(1), (x + Nat(1)) * y, x * y + y]
    for a in sides:
        for b in sides:
            g.append(('nat_norm', Eq(a, b), []))
    # intros: assumption / exists-fact premises in both orders, final premise of the shapes exE needs, exists arguments in premise
    # order, innermost-first, with a stale or missing entry
    from kernel.type import TVar, BoolType
    from kernel.term import Forall, Exists, Implies
    from kernel.thm import Thm
    A = TVar('a')
    P, Q = Var('P', TFun(A, BoolType)), Var('Q', TFun(A, BoolType))
    u, w = Var('u', A), Var('w', A)
    C, p = Var('C', BoolType), Var('p', BoolType)
    exP, exQ = Exists(u, P(u)), Exists(u, Q(u))
    E1, E2, Ap = Thm(exP, exP), Thm(exQ, exQ), Thm(p, p)
    finals = [Thm(Forall(u, Implies(P(u), C))), Thm(Forall(w, Implies(Q(w), Forall(u, Implies(P(u), C))))), Thm(Forall(u, Implies(P(u), Forall(w, Implies(Q(w), C))))), Thm(C), Thm(C, p),
              Thm(Forall(w, Implies(Q(w), C)), exP), Thm(Forall(u, Implies(P(u), C)), exQ), Thm(Forall(u, Implies(P(u), C)), p)]
    intro_sets = [[E1], [E2], [E1, E2], [E2, E1], [Ap, E1], [E1, Ap], [Ap], [E1, Ap, E2], [E1, E1]]
    arg_sets = [[], [exP], [exQ], [exP, exQ], [exQ, exP], [p, exP], [exP, p], [exP, exP]]
    for ins in intro_sets:
        for fin in finals:
            for ar in arg_sets:
                g.append(('intros', list(ar), ins + [fin]))
    # forall_elim_gen on quantified premises that carry a redex of their own, instantiated by variables / numerals / abstractions
    from kernel.term import Lambda, Comb
    xn, yn, an, bn = Var('x', NatType), Var('y', NatType), Var('a', NatType), Var('b', NatType)
    hN = Var('h', TFun(NatType, NatType))
    qprems = [Forall(xn, Eq(Comb(Lambda(yn, yn + Nat(1)), xn), bn)), Forall(xn, Eq(hN(Comb(Lambda(yn, yn), xn)), xn)), Forall(xn, Eq(xn + Nat(0), xn)),
              Forall(hN, Eq(hN(Comb(Lambda(yn, yn), an)), hN(an))), Forall(hN, Eq(hN(an), hN(an)))]
    for qp in qprems:
        v = qp.arg.var_T
        insts = [an, Nat(2), an + Nat(1), Comb(Lambda(yn, yn), an)] if v == NatType else [hN, Lambda(yn, yn + Nat(1)), Lambda(yn, Comb(Lambda(xn, xn), yn))]
        for t in insts:
            g.append(('forall_elim_gen', t, [Thm(qp, qp)]))
            g.append(('forall_elim_gen', t, [Thm(qp)]))
    # fun_upd_eval with keys that are not two distinct numerals
    for key, arg in ((xn, yn), (Nat(1) + Nat(1), Nat(2)), (xn, Nat(2)), (Nat(2), xn), (xn, xn), (Nat(2), Nat(1) + Nat(1)), (xn + Nat(0), xn)):
        g.append(('fun_upd_eval', mk_fun_upd(f, key, Nat(5))(arg), []))
        g.append(('fun_upd_eval', mk_fun_upd(f, Nat(3), Nat(4), key, Nat(5))(arg), []))
        g.append(('fun_upd_eval', Eq(mk_fun_upd(f, key, Nat(5))(arg), f(arg)), []))
    _N['g'] = g
    return g


def run_numerals(u, out):
    from kernel import theory
    _, tier, seed, lo, hi = u
    gs = numeral_goals()
    for i in range(lo, min(hi, len(gs))):
        name, args, prevs = gs[i]
        if name not in theory.global_macros:
            continue
        out['evals'] += 1
        if os.environ.get('VERIF_TWIN'):
            if not out['cex']:
                out['cex'].append({'kind': 'twin', 'macro': name})
            continue
        st, detail = try_case(name, args, prevs)
        if st in ('no-eval', 'no-expansion'):
            continue
        out['keys'].add('n|%d' % i)
        if st == 'ok-unknown':
            out['inconclusive'] += 1
        elif st != 'ok':
            out['cex'].append({'kind': st + ':' + name, 'part': 'num', 'i': i, 'name': name, 'detail': detail})
            if len(out['cex']) >= 12:
                break
    out['stats'] = {'accepted_by_macro': {}}
    out['samples'].append({'numeral_goal': str(gs[lo][1]), 'macro': gs[lo][0]})


def premise_lists(tier, seed, mi):
    P = pools()
    pl = list(P['prevs'])
    rnd = random.Random('c04-%s-%s' % (seed, mi))
    npairs = 20 if tier == 'quick' else 600
    for _ in range(npairs):
        pl.append([rnd.choice(P['base']), rnd.choice(P['base'])])
    for _ in range(5 if tier == 'quick' else 100):
        pl.append([rnd.choice(P['base']), rnd.choice(P['base']), rnd.choice(P['base'])])
    return pl


def run_unit(u):
    if u[0] in ('harv', 'num'):
        out = {'evals': 0, 'keys': set(), 'cex': [], 'samples': [], 'inconclusive': 0, 'stats': {}}
        (run_harvest if u[0] == 'harv' else run_numerals)(u, out)
        from logic import basic
        basic.load_theory('hoare')
        out['keys'] = list(out['keys'])
        return out
    _, tier, seed, mi = u
    P = pools()
    name = P['macros'][mi]
    out = {'evals': 0, 'keys': set(), 'cex': [], 'samples': [], 'inconclusive': 0, 'stats': {}}
    pl = premise_lists(tier, seed, mi)
    accepted = 0
    for ai, args in enumerate(P['args']):
        for pi, prevs in enumerate(pl):
            out['evals'] += 1
            if os.environ.get('VERIF_TWIN'):
                if not out['cex']:
                    out['cex'].append({'kind': 'twin', 'macro': name})
                continue
            st, detail = try_case(name, args, prevs)
            if st in ('no-eval', 'no-expansion'):
                continue
            accepted += 1
            out['keys'].add('%s|%d|%d' % (name, ai, pi))
            if st == 'ok-unknown':
                out['inconclusive'] += 1
            elif st != 'ok':
                out['cex'].append({'kind': st + ':' + name, 'macro': mi, 'name': name, 'arg': ai, 'prem': pi, 'tier': tier, 'seed': seed, 'detail': detail})
                if len(out['cex']) >= 12:
                    break
        if len(out['cex']) >= 12:
            break
    out['stats'] = {'macros_with_accepted_inputs': 1 if accepted else 0, 'accepted_by_macro': {name: accepted}}
    out['samples'].append({'macro': name, 'accepted_inputs': accepted})
    out['keys'] = list(out['keys'])
    return out


def replay(c):
    if c['kind'] == 'twin':
        return True, 'twin'
    if c.get('part') == 'num':
        name, args, prevs = numeral_goals()[c['i']]
        st, detail = try_case(name, args, prevs)
        return (st + ':' + name) == c['kind'], detail
    if c.get('part') == 'harv':
        out = {'evals': 0, 'keys': set(), 'cex': [], 'samples': [], 'inconclusive': 0, 'stats': {}}
        run_harvest(('harv', 'quick', 0, c['theory'], c['lo'], c['hi']), out)
        from logic import basic
        basic.load_theory('hoare')
        m = [x for x in out['cex'] if x['kind'] == c['kind'] and x['thm'] == c['thm'] and x['args'] == c['args'] and x['variant'] == c['variant']]
        return (True, m[0]['detail']) if m else (False, 'not reproduced')
    P = pools()
    name = P['macros'][c['macro']]
    if name != c['name']:
        return False, 'macro list changed'
    pl = premise_lists(c['tier'], c['seed'], c['macro'])
    st, detail = try_case(name, P['args'][c['arg']], pl[c['prem']])
    return (st + ':' + name) == c['kind'], detail
