"""C02 -- the checker accepts only well-founded, fully justified, gap-free proofs.

A (symx): proof skeletons (rules, stated sequents, nesting, placeholders enumerated with eng.choice) whose step
   identifiers and citation identifiers are *symbolic integers not tied to positions*.  The real
   theory.check_proof runs on them; ItemID.can_depend_on branches symbolically, Proof.find_item concretises.
   Whenever the real checker accepts, on that path:
     (i)  an independent position-based re-checker (ref_check, 60 lines) must accept with the same final sequent:
          every citation resolves to a step verified earlier in the same or an enclosing open block, every stated
          sequent is no stronger than what its rule yields, no placeholder with gaps disallowed;
     (ii) with gaps disallowed the final sequent is valid in every model (holsmt) -- a circular proof of `false` trips both;
     (iii) with gaps allowed the reported gaps equal, as a multiset, the placeholders found by an independent traversal.
B (enumeration): Theory.checked_extend on (stated theorem, proof) pairs: the theorem is installed as proved only if
   the proof is accepted gap-free and proves the statement; otherwise refusal or an axiom entry in the report.
"""
import itertools
import os
import random

import z3

from vlib import symx
from vlib.symx import Engine, SymInt

PID = 'C02'
LEVEL = 'other'
LEVEL_TEXT = ('Bounded symbolic execution of the real check_proof on proof skeletons whose step and citation identifiers are solver variables '
              '(not tied to positions): every accepting path is compared with an independent position-based re-checker and, with gaps disallowed, '
              'the final sequent is decided valid by an SMT oracle; gap reports are compared with an independent traversal; checked_extend is '
              'exercised on enumerated (statement, proof) pairs. Skeleton size is a stated bound.')
LEVEL_NOTE = 'trusts z3, the proxy engine, the reference re-checker (position-based, in this file), holsmt; skeletons beyond the bound are outside the claim'
TECHNIQUE = 'bounded symbolic execution of the real checker (symbolic identifiers/citations) + independent reference checker + SMT validity oracle'
FUNCTIONS = ['kernel.theory:Theory.check_proof/_check_proof_item/checked_extend', 'kernel.proof:ItemID.can_depend_on', 'kernel.proof:Proof.find_item',
             'kernel.thm:Thm.can_prove', 'kernel.report:ProofReport.add_gap', 'kernel.report:ExtensionReport.add_axiom', 'kernel.macro:Macro.expand']
ASSUMPTIONS = [
    'skeletons: <= 2 top-level items exhaustively (thorough: a third item from seeded samples), one optional 2-item subproof block; rules assume / implies_intr / implies_elim / '
    'substitution-with-empty-instantiation (copies a cited sequent) / sorry / empty rule / subproof / a level-1 macro expanding to a sorry / a level-1 macro with a 2-step expansion',
    'stated sequents from {absent, |- false, p |- p, |- p, |- p --> p}',
    'identifier components symbolic in [-1,3], citation components symbolic in [-2,3], citation length 1 or 2',
    'plus one family of two sibling 2-line subproof blocks (+ optional top-level line) with identifiers = positions and all citations symbolic in [-1,2]',
    'two harness macros are registered in kernel.theory.global_macros of the harness process only',
]
RULE = ('one evaluation = one explored path of check_proof over a skeleton (a set of identifier assignments); distinct = distinct (skeleton, decision trace); '
        'non-trivial = the skeleton has a citation or a stated sequent')
EXPLANATION = ('identifiers and citations are z3 integers flowing through can_depend_on / find_item; acceptance on a path is checked against the reference '
               're-checker under the path condition, and validity of the accepted sequent is decided by z3 (propositional/HOL encoding)')
BUDGET_S = {'quick': 240, 'thorough': 900}

STATED = ['none', 'false', 'p|-p', '|-p', '|-p-->p']
RULES = ['assume_p', 'assume_q', 'implies_intr_p', 'implies_elim', 'ident', 'sorry', 'empty', 'subproof', 'm_sorry', 'm_two']
ARITY = {'assume_p': 0, 'assume_q': 0, 'implies_intr_p': 1, 'implies_elim': 2, 'ident': 1, 'sorry': 0, 'empty': 0, 'subproof': 0, 'm_sorry': 0, 'm_two': 0}
SUBRULES = ['assume_p', 'implies_intr_p', 'ident', 'sorry']


def bounds(tier):
    return {'top_level_items': 2 if tier == 'quick' else 3, 'subproof_items': 2, 'rules': RULES, 'stated': STATED, 'id_range': [-1, 3], 'citation_range': [-2, 3],
            'third_item': 'absent (quick)' if tier == 'quick' else '4 seeded (rule, stated) pairs per unit', 'checked_extend_pairs': 'all pairs of 6 statements x 9 proofs'}


_T = {}


def T():
    if _T:
        return _T
    from kernel.type import BoolType
    from kernel.term import Var, Implies, Const
    from kernel.thm import Thm
    p, q = Var('p', BoolType), Var('q', BoolType)
    _T.update({'p': p, 'q': q, 'false': Const('false', BoolType),
               'none': None, 'th_false': Thm(Const('false', BoolType)), 'th_p|-p': Thm(p, p), 'th_|-p': Thm(p), 'th_|-p-->p': Thm(Implies(p, p))})
    return _T


def setup(tier, seed):
    from logic import basic
    basic.load_theory('logic_base')
    from kernel import theory
    from kernel.macro import Macro
    from kernel.proofterm import ProofTerm
    from kernel.thm import Thm
    from kernel.term import Term
    symx.install_isinstance()
    t = T()
    if 'verif_m_sorry' not in theory.global_macros:
        class MSorry(Macro):
            def __init__(self):
                self.level = 1
                self.sig = Term
                self.limit = None

            def get_proof_term(self, args, prevs):
                return ProofTerm.sorry(Thm(args))

        class MTwo(Macro):
            def __init__(self):
                self.level = 1
                self.sig = Term
                self.limit = None

            def get_proof_term(self, args, prevs):
                return ProofTerm.assume(args).implies_intr(args)
        theory.global_macros['verif_m_sorry'] = MSorry()
        theory.global_macros['verif_m_two'] = MTwo()


def stated(tag):
    return None if tag == 'none' else T()['th_' + tag]


def units(tier, seed):
    us = []
    for r in range(len(RULES)):
        for s in range(len(STATED)):
            if RULES[r] == 'subproof':
                for k in range(len(SUBRULES)):
                    us.append(('skel', tier, seed, r, s, k))
            else:
                us.append(('skel', tier, seed, r, s, None))
    us.append(('skel', tier, seed, 'two-blocks', 0, None))
    us.append(('extend', tier))
    random.Random(seed).shuffle(us)
    us.sort(key=lambda u: 0 if (u[0] == 'skel' and (u[3] == 'two-blocks' or RULES[u[3]] == 'subproof')) else 1)   # longest first
    return us


# ------------------------------------------------------------------ skeleton -> real Proof

def mk_item(desc, conc=None):
    """desc: dict(id=tuple, rule, prevs=[tuples], th=tag, sub=[descs]) -> real ProofItem (ids may be proxies)."""
    from kernel.proof import Proof, ProofItem
    from kernel.term import Inst
    t = T()
    rule = desc['rule']
    kw = {'prevs': [tuple(pv) for pv in desc['prevs']], 'th': stated(desc['th'])}
    if rule == 'assume_p':
        it = ProofItem(tuple(desc['id']), 'assume', args=t['p'], **kw)
    elif rule == 'assume_q':
        it = ProofItem(tuple(desc['id']), 'assume', args=t['q'], **kw)
    elif rule == 'implies_intr_p':
        it = ProofItem(tuple(desc['id']), 'implies_intr', args=t['p'], **kw)
    elif rule == 'implies_elim':
        it = ProofItem(tuple(desc['id']), 'implies_elim', **kw)
    elif rule == 'ident':
        it = ProofItem(tuple(desc['id']), 'substitution', args=Inst(), **kw)
    elif rule == 'sorry':
        it = ProofItem(tuple(desc['id']), 'sorry', **kw)
    elif rule == 'empty':
        it = ProofItem(tuple(desc['id']), '', **kw)
    elif rule == 'm_sorry':
        it = ProofItem(tuple(desc['id']), 'verif_m_sorry', args=t['p'], **kw)
    elif rule == 'm_two':
        it = ProofItem(tuple(desc['id']), 'verif_m_two', args=t['p'], **kw)
    elif rule == 'subproof':
        it = ProofItem(tuple(desc['id']), 'subproof', **kw)
        it.subproof = Proof()
        it.subproof.items = [mk_item(d) for d in desc['sub']]
    else:
        raise ValueError(rule)
    return it


def mk_proof(descs):
    from kernel.proof import Proof
    prf = Proof()
    prf.items = [mk_item(d) for d in descs]
    return prf


# ------------------------------------------------------------------ independent reference checker (position based)

class Reject(Exception):
    pass


def ref_check(descs, no_gaps):
    """Position-based re-check of a *concrete* skeleton. Returns (final Thm, gaps list) or raises Reject."""
    from kernel.thm import Thm
    from kernel.term import Implies
    t = T()
    est = {}       # position path -> established Thm
    gaps = []

    def cited(path, cid):
        cid = tuple(int(c) for c in cid)
        l = len(cid)
        if l == 0 or l > len(path) or any(c < 0 for c in cid):
            raise Reject('citation %s not addressable from %s' % (cid, path))
        if cid[:l - 1] != path[:l - 1] or not cid[l - 1] < path[l - 1]:
            raise Reject('citation %s is not an earlier step of the same or an enclosing open block of %s' % (cid, path))
        if cid not in est:
            raise Reject('citation %s has no verified sequent' % (cid,))
        return est[cid]

    def apply(rule, ths):
        p = t['p']
        if rule == 'assume_p':
            return Thm(p, p)
        if rule == 'assume_q':
            return Thm(t['q'], t['q'])
        if rule == 'implies_intr_p':
            th, = ths
            return Thm(Implies(p, th.prop), tuple(h for h in th.hyps if h != p))
        if rule == 'implies_elim':
            a, b = ths
            if not a.prop.is_implies() or a.prop.arg1 != b.prop:
                raise Reject('implies_elim does not apply')
            return Thm(a.prop.arg, tuple(a.hyps) + tuple(h for h in b.hyps if h not in a.hyps))
        if rule == 'ident':
            return ths[0]
        if rule == 'm_two':
            return Thm(Implies(p, p))
        raise Reject('no rule ' + rule)

    def walk(items, path):
        last = None
        for pos, d in enumerate(items):
            pth = path + (pos,)
            rule = d['rule']
            st = stated(d['th'])
            if rule == 'empty' and st is None:
                # an empty line justifies nothing
                last = None
                continue
            if rule in ('sorry', 'm_sorry', 'empty'):
                # placeholders: sorry, a macro whose expansion contains a sorry, and a line that
                # states a sequent without giving any rule
                gap_th = st if rule != 'm_sorry' else Thm(t['p'])
                if rule == 'sorry' and st is None:
                    raise Reject('sorry without statement')
                if no_gaps:
                    raise Reject('placeholder with gaps disallowed')
                gaps.append(gap_th)
                res = gap_th
            elif rule == 'subproof':
                res = walk(d['sub'], pth)
                if res is None:
                    raise Reject('subproof establishes nothing')
            else:
                ths = [cited(pth, c) for c in d['prevs']]
                res = apply(rule, ths)
            if st is not None:
                if not (res.prop == st.prop and set(res.hyps) <= set(st.hyps)):
                    raise Reject('stated sequent %s stronger than / different from %s' % (st, res))
                res = st
            est[pth] = res
            last = res
        return last
    final = walk(descs, ())
    if final is None:
        raise Reject('last step establishes nothing')
    return final, gaps


# ------------------------------------------------------------------ A: symbolic identifiers

def sym_id(eng, name, lo, hi):
    return eng.fresh_int(name, lo, hi)


def gen_skeleton(eng, first_rule, first_stated, third_sample=None, sub0=None):
    """Build a skeleton description with proxies for ids/citations (choices through eng)."""
    n = 1 + eng.choice(3 if third_sample is not None else 2)
    descs = []
    for i in range(n):
        if i == 0:
            rule, st = RULES[first_rule], STATED[first_stated]
        elif i == 2 and third_sample is not None:
            rule, st = third_sample[eng.choice(len(third_sample))]
        else:
            # at most one subproof block per skeleton; after a subproof the later items use the short stated list
            has_sub = any(d['rule'] == 'subproof' for d in descs)
            rl = [r for r in RULES if r != 'subproof'] if has_sub else RULES
            rule = rl[eng.choice(len(rl))]
            st = STATED[eng.choice(3 if has_sub else len(STATED))]
        if rule in ('sorry', 'empty') and st == 'none':
            st = 'false'
        d = {'id': (sym_id(eng, 'id%d' % i, -1, 3),), 'rule': rule, 'th': st, 'prevs': [], 'sub': []}
        for k in range(ARITY[rule]):
            ln = 1 + eng.choice(2)
            d['prevs'].append(tuple(sym_id(eng, 'c%d_%d_%d' % (i, k, j), -2, 3) for j in range(ln)))
        if rule == 'subproof':
            for j in range(2):
                if i == 0 and j == 0 and sub0 is not None:
                    srule = SUBRULES[sub0]
                else:
                    srule = SUBRULES[eng.choice(len(SUBRULES))]
                sst = 'p|-p' if srule == 'sorry' else STATED[eng.choice(2)]
                sd = {'id': (sym_id(eng, 's%d_%da' % (i, j), -1, 3), sym_id(eng, 's%d_%db' % (i, j), -1, 3)), 'rule': srule, 'th': sst, 'prevs': [], 'sub': []}
                for k in range(ARITY[srule]):
                    ln = 1 + eng.choice(2)
                    sd['prevs'].append(tuple(sym_id(eng, 'sc%d_%d_%d_%d' % (i, j, k, jj), -2, 3) for jj in range(ln)))
                d['sub'].append(sd)
        descs.append(d)
    return descs


def gen_skeleton2(eng):
    """Two sibling subproof blocks of two lines each (identifiers = positions) followed by a top-level line.  Block 0 has no
    citations; the lines of block 1 and the final line carry symbolic citations (length 1 or 2, components in [-1,2]):
    citations from a block into a sibling block, into closed blocks, forward and to the enclosing line."""
    descs = []
    d0 = {'id': (0,), 'rule': 'subproof', 'th': 'none', 'prevs': [], 'sub': []}
    for j in range(2):
        srule = ['assume_p', 'sorry'][eng.choice(2)]
        d0['sub'].append({'id': (0, j), 'rule': srule, 'th': 'p|-p' if srule == 'sorry' else STATED[eng.choice(2)], 'prevs': [], 'sub': []})
    descs.append(d0)
    d1 = {'id': (1,), 'rule': 'subproof', 'th': STATED[eng.choice(2)], 'prevs': [], 'sub': []}
    for j, rules in enumerate((['assume_p', 'ident'], ['ident', 'implies_intr_p'])):
        srule = rules[eng.choice(2)]
        sd = {'id': (1, j), 'rule': srule, 'th': STATED[eng.choice(2)], 'prevs': [], 'sub': []}
        for k in range(ARITY[srule]):
            ln = 1 + eng.choice(2)
            sd['prevs'].append(tuple(sym_id(eng, 'tc1_%d_%d_%d' % (j, k, jj), -1, 2) for jj in range(ln)))
        d1['sub'].append(sd)
    descs.append(d1)
    ln = 1 + eng.choice(2)
    descs.append({'id': (2,), 'rule': 'ident', 'th': STATED[eng.choice(2)], 'prevs': [tuple(sym_id(eng, 'tc2_%d' % jj, -1, 2) for jj in range(ln))], 'sub': []})
    return descs


def conc_descs(model, descs):
    out = []
    for d in descs:
        out.append({'id': [symx.model_value(model, c) for c in d['id']], 'rule': d['rule'], 'th': d['th'],
                    'prevs': [[symx.model_value(model, c) for c in pv] for pv in d['prevs']], 'sub': conc_descs(model, d['sub'])})
    return out


def skel_key(descs):
    return '|'.join('%s:%s:%d:[%s]' % (d['rule'], d['th'], len(d['prevs']), skel_key(d['sub'])) for d in descs)


ORACLE = None


def oracle():
    global ORACLE
    if ORACLE is None:
        from vlib.holsmt import Oracle
        ORACLE = Oracle()
    return ORACLE


def real_check(descs, no_gaps):
    """Run the real checker on a concrete or symbolic skeleton. -> ('accept', th, gaps) | ('reject', exc)"""
    from kernel import theory
    from kernel.report import ProofReport
    prf = mk_proof(descs)
    rpt = ProofReport()
    try:
        th = theory.check_proof(prf, rpt, no_gaps=no_gaps)
    except symx.Infeasible:
        raise
    except Exception as e:
        return ('reject', type(e).__name__)
    return ('accept', th, list(rpt.gaps))


def judge_concrete(cd, no_gaps):
    """All oracle comparisons on a concrete skeleton. Returns (kind or None, detail)."""
    r = real_check(cd, no_gaps)
    if r[0] != 'accept':
        return None, 'rejected (%s)' % r[1]
    _, th, gaps = r
    if th is None:
        return 'accepted-without-sequent', 'check_proof returned None'
    try:
        ref_th, ref_gaps = ref_check(cd, no_gaps)
    except Reject as e:
        return 'accepted-unjustified', 'check_proof(no_gaps=%s) returns %s but the reference re-checker rejects: %s' % (no_gaps, th, e)
    if not (ref_th.prop == th.prop and set(ref_th.hyps) <= set(th.hyps)):
        return 'accepted-unjustified', 'check_proof returns %s, reference derives %s' % (th, ref_th)
    if no_gaps:
        v = oracle().valid(th.hyps, th.prop, key=str(th))
        if v.status == 'invalid':
            return 'accepted-invalid', 'check_proof(no_gaps=True) returns the invalid sequent %s' % th
    else:
        if sorted(map(str, gaps)) != sorted(map(str, ref_gaps)):
            return 'gaps-misreported', 'reported gaps %s, placeholders present %s' % (gaps, ref_gaps)
    return None, 'fine'


def run_skel(u, out, twin):
    _, tier, seed, fr, fs, sub0 = u
    rnd = random.Random('%s-%s-%s' % (seed, fr, fs))
    third = None     # quick: <= 2 top-level items (exhaustive); thorough: third item from 4 seeded (rule, stated) pairs
    if tier == 'thorough':
        third = [(rnd.choice(RULES), rnd.choice(STATED)) for _ in range(4)]
    eng = Engine()

    def run(eng):
        if len(out['cex']) >= 8:
            return
        no_gaps = bool(eng.choice(2))
        descs = gen_skeleton2(eng) if fr == 'two-blocks' else gen_skeleton(eng, fr, fs, third, sub0)
        r = real_check(descs, no_gaps)
        out['evals'] += 1
        out['keys'].add('%s|%s|%x' % (skel_key(descs), no_gaps, hash(tuple(eng.trace)) & 0xffffffff))
        if r[0] != 'accept':
            return
        if eng.check() != 'sat':
            raise symx.Infeasible()
        m = eng.model()
        cd = conc_descs(m, descs)
        if twin:
            out['cex'].append({'kind': 'twin', 'skeleton': cd, 'no_gaps': no_gaps})
            return
        # The accepting path fixes every identifier the checker looked at; identifiers it never inspected are
        # irrelevant to its verdict.  Judge the model instance natively (this is also the concolic validation:
        # the concrete run must accept as the symbolic one did).
        with symx.Native():
            rc = real_check(cd, no_gaps)
            eng.stats.validated += 1
            if rc[0] != 'accept' or str(rc[1]) != str(r[1]):
                eng.stats.validation_errors.append({'skeleton': cd, 'no_gaps': no_gaps, 'symbolic': str(r[1]), 'native': str(rc[1:2])})
                return
            kind, detail = judge_concrete(cd, no_gaps)
        if kind:
            out['cex'].append({'kind': kind, 'skeleton': cd, 'no_gaps': no_gaps, 'detail': detail})
    done = eng.explore(run, max_paths=400000)
    if not done:
        eng.stats.__dict__['budget_cut'] = 1
    out['stats'] = eng.stats.as_dict()
    out['samples'].append({'first_item': [fr if fr == 'two-blocks' else RULES[fr], STATED[fs]], 'ids': 'symbolic', 'paths': eng.stats.paths})


# ------------------------------------------------------------------ B: checked_extend

def extend_cases():
    """(statement tag, proof description) pairs."""
    t = T()
    stm = ['false', '|-p-->p', '|-p', 'p|-p', '|-q-->q', '|-p-->q']
    proofs = {
        'proves p-->p': [{'id': [0], 'rule': 'assume_p', 'th': 'none', 'prevs': [], 'sub': []}, {'id': [1], 'rule': 'implies_intr_p', 'th': 'none', 'prevs': [[0]], 'sub': []}],
        'proves p|-p': [{'id': [0], 'rule': 'assume_p', 'th': 'none', 'prevs': [], 'sub': []}],
        'sorry false': [{'id': [0], 'rule': 'sorry', 'th': 'false', 'prevs': [], 'sub': []}],
        'sorry p': [{'id': [0], 'rule': 'sorry', 'th': '|-p', 'prevs': [], 'sub': []}],
        'sorry then intr': [{'id': [0], 'rule': 'sorry', 'th': 'p|-p', 'prevs': [], 'sub': []}, {'id': [1], 'rule': 'implies_intr_p', 'th': 'none', 'prevs': [[0]], 'sub': []}],
        'macro with sorry': [{'id': [0], 'rule': 'm_sorry', 'th': 'none', 'prevs': [], 'sub': []}],
        'empty line false': [{'id': [0], 'rule': 'empty', 'th': 'false', 'prevs': [], 'sub': []}],
        'invalid proof': [{'id': [0], 'rule': 'implies_elim', 'th': 'none', 'prevs': [[0], [0]], 'sub': []}],
        'no proof': None,
    }
    return stm, proofs


def stm_thm(tag):
    from kernel.thm import Thm
    from kernel.term import Implies
    t = T()
    if tag == 'false':
        return t['th_false']
    if tag == '|-q-->q':
        return Thm(Implies(t['q'], t['q']))
    if tag == '|-p-->q':
        return Thm(Implies(t['p'], t['q']))
    return t['th_' + tag]


def extend_case(stag, pname):
    """-> (kind or None, detail)"""
    from kernel import theory, extension
    from kernel.theory import CheckProofException
    stm, proofs = extend_cases()
    th = stm_thm(stag)
    pd = proofs[pname]
    prf = mk_proof(pd) if pd is not None else None
    name = 'verif_thm_%s_%s' % (abs(hash(stag)) % 1000, abs(hash(pname)) % 1000)
    ext = extension.Theorem(name, th, prf)
    saved = theory.thy
    try:
        from logic import basic
        basic.load_theory('logic_base')
        import copy
        thy = theory.thy
        try:
            rpt = thy.checked_extend([ext])
        except Exception as e:
            installed = thy.has_theorem(name)
            if installed:
                return 'extend-installed-after-refusal', 'checked_extend raised %s but %s is installed' % (type(e).__name__, name)
            return None, 'refused'
        installed = thy.has_theorem(name)
        axioms = [n for n, _ in rpt.get_axioms()]
        if installed and name not in axioms:
            # admitted as proved: the proof must be accepted gap-free and conclude the statement
            ok = False
            if pd is not None:
                try:
                    rth, rgaps = ref_check(pd, True)
                    ok = rth.prop == th.prop and set(rth.hyps) <= set(th.hyps)
                except Reject:
                    ok = False
            if not ok:
                return 'extend-admitted-unproved', 'checked_extend installed %s: %s as proved (no axiom reported) with proof "%s"' % (name, th, pname)
        return None, 'fine'
    finally:
        from logic import basic
        # drop the theorem again: reload a clean theory
        basic.load_theory('logic_base')
        try:
            if theory.thy.has_theorem(name):
                del theory.thy.data['theorems'][name]
        except Exception:
            pass


def run_extend(u, out, twin):
    stm, proofs = extend_cases()
    for s in stm:
        for pn in proofs:
            out['evals'] += 1
            out['keys'].add('ext|%s|%s' % (s, pn))
            if twin:
                out['cex'].append({'kind': 'twin', 'statement': s, 'proof': pn})
                continue
            kind, detail = extend_case(s, pn)
            if kind:
                out['cex'].append({'kind': kind, 'statement': s, 'proof': pn, 'detail': detail})
    out['samples'].append({'checked_extend': {'statement': stm[0], 'proof': 'sorry false'}})


def run_unit(u):
    out = {'evals': 0, 'keys': set(), 'cex': [], 'samples': [], 'inconclusive': 0, 'stats': {}}
    twin = bool(os.environ.get('VERIF_TWIN'))
    if u[0] == 'skel':
        run_skel(u, out, twin)
    else:
        run_extend(u, out, twin)
    out['keys'] = list(out['keys'])
    return out


def replay(c):
    if c['kind'] == 'twin':
        return True, 'twin'
    if c['kind'].startswith('extend-'):
        kind, detail = extend_case(c['statement'], c['proof'])
        return kind == c['kind'], detail
    kind, detail = judge_concrete(c['skeleton'], c['no_gaps'])
    return kind == c['kind'], '%s\nproof:\n%s' % (detail, mk_proof(c['skeleton']))
