"""C20 -- VC generation and program evaluation are sound with respect to execution.

1. VC soundness (E programs, S states): annotated while-programs over x,y; the real Com.compute_wp / get_lines produce the
   VCs; each VC is translated to z3 (i) from the Expr and (ii) from the HOL term the real convert_hol emits (via holsmt) --
   the two must be equivalent for all states.  If z3 proves all VCs valid (all integer states), the Hoare triple is
   checked against a reference interpreter over z3 integer states (loops unrolled K times, "exited" flag):
   pre(s) & run_K(c,s) = s' & exited & ~post(s')  must be unsat.  A model is a concrete initial state and is replayed
   with a plain Python interpreter.
2. Shown = computed (S): str(vc) (what the user sees) re-parsed by the real cond_parser must be equivalent to the computed
   VC for all states; likewise printed program text re-parsed by com_parser must compute the same final state.
3. Symbolic evaluation (E): imp.eval_Sem on nat-state programs: the theorem is accepted by check_proof and its final
   state equals the reference interpreter's on every variable (decided by holsmt on the fun_upd chain).
"""
import itertools
import os
import random

import z3

PID = 'C20'
LEVEL = 'other'
LEVEL_TEXT = ('Programs and annotations are enumerated up to a bound; for each, z3 decides validity of the real generator\'s verification conditions over all '
              'integer states and then the Hoare triple against a reference interpreter (loops unrolled K times) -- the state quantifier is solver-decided. '
              'Printed conditions/programs are re-parsed by the real parsers and proved equivalent for all states. eval_Sem theorems are re-checked by the kernel and compared with the reference interpreter.')
LEVEL_NOTE = 'trusts z3, the 60-line reference interpreter in this file, holsmt for HOL-side conditions; executions needing more than K loop iterations and programs beyond the enumerated family are outside the claim'
TECHNIQUE = 'enumerated programs through the real VC generator/parsers + z3 over all integer states against a reference interpreter (bounded unrolling)'
FUNCTIONS = ['imperative.com:Com.compute_wp/get_lines/get_vcs/print_com', 'imperative.expr:Expr.subst/convert_hol/__str__', 'imperative.parser2:cond_parser/com_parser',
             'imperative.imp:eval_Sem/eval_Sem_macro', 'kernel.theory:check_proof']
ASSUMPTIONS = [
    'programs over integer variables x y: skip, x := e, seq, if, while [inv]; expressions c, v, v+-c, v+-w, 2*v, v*w, v-(w-c); conditions < <= == != with ~ & | -->',
    'loops are unrolled K=3 (thorough 5) times in the reference semantics; longer executions are outside the claim',
    'pre-condition of a triple is the computed wp itself or `true` or a pool assertion; VCs must all be z3-valid before the triple is judged',
    'eval_Sem: nat-valued states (functions nat => nat), programs of depth <= 2, initial values 0',
]
RULE = ('one evaluation = one (program, annotations) triple / one printed condition / one eval_Sem run; distinct = distinct inputs; non-trivial (counted) = all VCs valid so the triple '
        'was judged, or the printed form was re-parsed, or eval_Sem succeeded')
EXPLANATION = 'states are z3 integers; VC validity, triple validity w.r.t. the reference interpreter, and print/parse equivalence are z3 validity queries over all states'
BUDGET_S = {'quick': 240, 'thorough': 900}
VARS = ['x', 'y']


def bounds(tier):
    return {'program_depth': 2, 'triples': 2500 if tier == 'quick' else 60000, 'steering_programs': 'x := e; if g(x) then y := c1 else y := c2 with 8 e, 6 g, 6 constant pairs, 3 postconditions about y, 3 preconditions (2592)', 'function_application_programs': 'x := e / y := x; x := e / if x < y then x := e else y := e with 9 e (incl. abs x, max x y), 8 postconditions with abs / max over compound arguments, 4 preconditions (864)', 'loop_unrolling_K': 3 if tier == 'quick' else 5,
            'printed_conditions': 'all arithmetic expressions of depth <= 2 over x y 1 (2673) + boolean combinations (600 / 20000 seeded: half fixed shapes, half random nestings of & | --> ~ if-then-else to depth 3)',
            'eval_Sem_programs': 150 if tier == 'quick' else 3000}


def setup(tier, seed):
    from data import real  # noqa
    from logic import basic
    basic.load_theory('hoare')


# ------------------------------------------------------------------ Expr -> z3 (independent of convert_hol)

def ze(e, st):
    from imperative import expr
    if isinstance(e, expr.Var):
        return st[e.name]
    if isinstance(e, expr.Const):
        return z3.BoolVal(e.val) if isinstance(e.val, bool) else z3.IntVal(e.val)
    if isinstance(e, expr.Op):
        a = [ze(x, st) for x in e.args]
        op = e.op
        if len(a) == 1:
            return -a[0] if op == '-' else z3.Not(a[0])
        f = {'+': lambda x, y: x + y, '-': lambda x, y: x - y, '*': lambda x, y: x * y, '==': lambda x, y: x == y,
             '!=': lambda x, y: x != y, '<=': lambda x, y: x <= y, '<': lambda x, y: x < y, '>=': lambda x, y: x >= y,
             '>': lambda x, y: x > y, '&': z3.And, '|': z3.Or, '-->': z3.Implies, '<-->': lambda x, y: x == y}[op]
        return f(*a)
    if isinstance(e, expr.ITE):
        return z3.If(ze(e.cond, st), ze(e.e1, st), ze(e.e2, st))
    if isinstance(e, expr.Fun) and e.fname in ('abs', 'max'):
        a = [ze(x, st) for x in e.args]
        return z3.If(a[0] >= 0, a[0], -a[0]) if e.fname == 'abs' else z3.If(a[0] >= a[1], a[0], a[1])
    raise NotImplementedError(repr(e))


def pyeval(e, st):
    """Plain Python evaluation of an Expr in a concrete state (replay)."""
    from imperative import expr
    if isinstance(e, expr.Var):
        return st[e.name]
    if isinstance(e, expr.Const):
        return e.val
    if isinstance(e, expr.Op):
        a = [pyeval(x, st) for x in e.args]
        op = e.op
        if len(a) == 1:
            return -a[0] if op == '-' else (not a[0])
        return {'+': lambda x, y: x + y, '-': lambda x, y: x - y, '*': lambda x, y: x * y, '==': lambda x, y: x == y, '!=': lambda x, y: x != y,
                '<=': lambda x, y: x <= y, '<': lambda x, y: x < y, '>=': lambda x, y: x >= y, '>': lambda x, y: x > y, '&': lambda x, y: x and y,
                '|': lambda x, y: x or y, '-->': lambda x, y: (not x) or y, '<-->': lambda x, y: x == y}[op](*a)
    if isinstance(e, expr.ITE):
        return pyeval(e.e1, st) if pyeval(e.cond, st) else pyeval(e.e2, st)
    if isinstance(e, expr.Fun) and e.fname in ('abs', 'max'):
        a = [pyeval(x, st) for x in e.args]
        return abs(a[0]) if e.fname == 'abs' else max(a[0], a[1])
    raise NotImplementedError


# ------------------------------------------------------------------ program family (descriptions are nested tuples)

def mk_expr(d):
    from imperative import expr
    k = d[0]
    if k == 'v':
        return expr.Var(d[1])
    if k == 'c':
        return expr.Const(d[1])
    if k == 'u':
        return expr.Op(d[1], mk_expr(d[2]))
    if k == 'ite':
        return expr.ITE(mk_expr(d[1]), mk_expr(d[2]), mk_expr(d[3]))
    if k == 'f':
        return expr.Fun(d[1], *[mk_expr(x) for x in d[2:]])
    return expr.Op(d[1], mk_expr(d[2]), mk_expr(d[3]))


def mk_com(d):
    from imperative import com
    k = d[0]
    if k == 'skip':
        return com.Skip()
    if k == 'asg':
        return com.Assign(d[1], mk_expr(d[2]))
    if k == 'seq':
        return com.Seq(mk_com(d[1]), mk_com(d[2]))
    if k == 'if':
        return com.Cond(mk_expr(d[1]), mk_com(d[2]), mk_com(d[3]))
    return com.While(mk_expr(d[1]), mk_expr(d[2]), mk_com(d[3]))


def B(op, a, b):
    return ('o', op, a, b)


X, Y = ('v', 'x'), ('v', 'y')
C0, C1, C2 = ('c', 0), ('c', 1), ('c', 2)
AEXPRS = [C0, C1, X, Y, B('+', X, C1), B('-', X, C1), B('+', X, Y), B('-', X, Y), B('-', Y, X), B('*', C2, X), B('*', X, Y),
          B('-', X, B('-', Y, C1)), B('-', B('-', X, Y), C1), B('*', B('+', X, C1), Y), ('u', '-', X)]
CONDS = [B('<', X, Y), B('<=', X, C0), B('==', X, Y), B('!=', X, C0), B('<', C0, Y), ('u', '~', B('<', X, Y)), B('&', B('<=', C0, X), B('<', X, Y)),
         B('|', B('<', X, C0), B('==', Y, C1)), B('-->', B('<', X, Y), B('<', X, B('+', Y, C1)))]
ASSERTS = [('c', True), B('<=', X, Y), B('==', X, Y), B('<=', C0, X), B('==', B('+', X, Y), C2), B('<', X, Y), B('&', B('<=', C0, X), B('<=', C0, Y)),
           B('!=', X, Y), B('==', B('-', X, Y), C1), B('-->', B('<=', C0, X), B('<=', C0, Y)),
           # assertions about one variable only (the other variable then only steers control flow)
           B('==', Y, C1), B('<=', C0, Y), B('<', Y, C2), B('==', X, C0), B('<', C0, X)]


def rand_com(rnd, depth):
    k = rnd.random()
    if depth == 0 or k < 0.3:
        if rnd.random() < 0.1:
            return ('skip',)
        return ('asg', rnd.choice(VARS), rnd.choice(AEXPRS))
    if k < 0.6:
        return ('seq', rand_com(rnd, depth - 1), rand_com(rnd, depth - 1))
    if k < 0.85:
        return ('if', rnd.choice(CONDS), rand_com(rnd, depth - 1), rand_com(rnd, depth - 1))
    return ('while', rnd.choice(CONDS), rnd.choice(ASSERTS), rand_com(rnd, depth - 1))


LOOP_TEMPLATES = [
    (('while', B('<', X, Y), B('<=', X, Y), ('asg', 'x', B('+', X, C1))), B('==', X, Y), B('<=', X, Y)),
    (('while', B('!=', X, C0), B('<=', C0, X), ('asg', 'x', B('-', X, C1))), B('==', X, C0), B('<=', C0, X)),
    (('seq', ('asg', 'y', C0), ('while', B('<', Y, X), B('<=', Y, X), ('asg', 'y', B('+', Y, C1)))), B('==', X, Y), B('<=', C0, X)),
    (('while', B('<', X, Y), B('<=', X, Y), ('seq', ('asg', 'x', B('+', X, C1)), ('skip',))), B('<=', Y, X), ('c', True)),
    (('while', B('<', C0, Y), B('<=', C0, Y), ('seq', ('asg', 'x', B('+', X, C2)), ('asg', 'y', B('-', Y, C1)))), B('==', Y, C0), B('<=', C0, Y)),
]


# ------------------------------------------------------------------ reference interpreter over z3 states

def run_sym(d, st, K):
    """-> list of (path condition, final state, exited) for command description d from symbolic state st."""
    k = d[0]
    if k == 'skip':
        return [(z3.BoolVal(True), st, True)]
    if k == 'asg':
        st2 = dict(st)
        st2[d[1]] = ze(mk_expr(d[2]), st)
        return [(z3.BoolVal(True), st2, True)]
    if k == 'seq':
        out = []
        for c1, s1, e1 in run_sym(d[1], st, K):
            if not e1:
                out.append((c1, s1, False))
                continue
            for c2, s2, e2 in run_sym(d[2], s1, K):
                out.append((z3.And(c1, c2), s2, e2))
        return out
    if k == 'if':
        b = ze(mk_expr(d[1]), st)
        return [(z3.And(b, c), s, e) for c, s, e in run_sym(d[2], st, K)] + [(z3.And(z3.Not(b), c), s, e) for c, s, e in run_sym(d[3], st, K)]
    # while
    out = []
    frontier = [(z3.BoolVal(True), st)]
    for i in range(K + 1):
        nxt = []
        for c, s in frontier:
            b = ze(mk_expr(d[1]), s)
            out.append((z3.And(c, z3.Not(b)), s, True))
            if i < K:
                for c2, s2, e2 in run_sym(d[3], s, K):
                    if e2:
                        nxt.append((z3.And(c, b, c2), s2))
                    else:
                        out.append((z3.And(c, b, c2), s2, False))
            else:
                out.append((z3.And(c, b), s, False))
        frontier = nxt
    return out


def run_py(d, st, fuel):
    """Concrete interpreter; returns final state or None if fuel runs out."""
    k = d[0]
    if k == 'skip':
        return st
    if k == 'asg':
        st2 = dict(st)
        st2[d[1]] = pyeval(mk_expr(d[2]), st)
        return st2
    if k == 'seq':
        s1 = run_py(d[1], st, fuel)
        return None if s1 is None else run_py(d[2], s1, fuel)
    if k == 'if':
        return run_py(d[2] if pyeval(mk_expr(d[1]), st) else d[3], st, fuel)
    n = 0
    while pyeval(mk_expr(d[1]), st):
        n += 1
        if n > fuel:
            return None
        st = run_py(d[3], st, fuel)
        if st is None:
            return None
    return st


def vc_exprs(c):
    """The VC Expr objects in the order get_lines prints them (replicates only the traversal order)."""
    from imperative import com, expr
    out = []

    def add(ls):
        for i in range(len(ls) - 1):
            out.append(ls[i + 1] if ls[i] == expr.true else expr.implies(ls[i], ls[i + 1]))

    def rec(cmd):
        add(cmd.pre)
        if isinstance(cmd, (com.Seq, com.Cond)):
            rec(cmd.c1)
            rec(cmd.c2)
        elif isinstance(cmd, com.While):
            rec(cmd.c)
            add(cmd.post)
    rec(c)
    return out


def wellformed_hol(t):
    from kernel.term import Term
    from kernel.type import BoolType
    if not isinstance(t, Term):
        return False
    try:
        def rec(u):
            if u.is_comb():
                return isinstance(u.fun, Term) and isinstance(u.arg, Term) and rec(u.fun) and rec(u.arg)
            if u.is_abs():
                return isinstance(u.body, Term) and rec(u.body)
            return True
        return rec(t) and t.checked_get_type() == BoolType
    except Exception:
        return False


ORACLE = None


def oracle():
    global ORACLE
    if ORACLE is None:
        from vlib.holsmt import Oracle
        ORACLE = Oracle(timeout_ms=3000)
    return ORACLE


def zvalid(f, timeout=3000):
    s = z3.Solver()
    s.set('timeout', timeout)
    s.add(z3.Not(f))
    r = str(s.check())
    return r, (s.model() if r == 'sat' else None)


def judge_triple(prog, pre_d, post_d, K):
    """-> (kind or None, detail, judged: bool)"""
    from imperative import expr, parser2
    st0 = {v: z3.Int(v) for v in VARS}
    c = mk_com(prog)
    post = mk_expr(post_d)
    if pre_d == 'wp':
        c0 = mk_com(prog)
        try:
            pre = c0.compute_wp(post)
        except Exception as e:
            return None, 'compute_wp raised %r' % e, False
    else:
        pre = mk_expr(pre_d)
    c.pre = [pre]
    try:
        c.compute_wp(post)
        lines = c.get_lines({v: 'int' for v in VARS})
    except Exception as e:
        return None, 'VC generation raised %r' % e, False
    vcs_line = [l for l in lines if l['ty'] == 'vc']
    vcs = vc_exprs(c)
    if len(vcs) != len(vcs_line):
        return 'vc-count', 'get_lines shows %d VCs, the command carries %d' % (len(vcs_line), len(vcs)), True
    all_valid = True
    for e, l in zip(vcs, vcs_line):
        f = ze(e, st0)
        # (ii) the HOL term emitted by the real convert_hol means the same for all states
        from kernel.term import Var as HVar, Eq as HEq
        from kernel.term import Term
        if not isinstance(l['prop'], Term) or not wellformed_hol(l['prop']):
            return 'vc-hol-malformed', 'convert_hol of the VC %s does not produce a well-formed HOL term: %r' % (e, l['prop']), True
        v = oracle().valid([], l['prop'])
        r, _ = zvalid(f)
        if r == 'unknown' or v.status == 'unknown':
            return None, 'inconclusive VC', False
        if (r == 'unsat') != (v.status == 'valid'):
            return 'vc-hol-differs', 'VC %s: z3 on the expression says %s, on the HOL term %s says %s' % (e, 'valid' if r == 'unsat' else 'invalid', l['prop'], v.status), True
        # shown = computed
        try:
            shown = parser2.cond_parser.parse(l['str'])
            r2, m2 = zvalid(ze(shown, st0) == f)
            if r2 == 'sat':
                return 'vc-shown-differs', 'VC computed as %r is shown as "%s", which parses to %r; they differ at %s' % (e, l['str'], shown, m2), True
        except Exception as ex:
            return 'vc-shown-unparsable', 'VC shown as "%s" does not parse: %s' % (l['str'], str(ex)[:80]), True
        if r != 'unsat':
            all_valid = False
    if not all_valid:
        return None, 'some VC is not valid: nothing is claimed', False
    # all VCs valid: the triple must hold for every terminating execution (up to K iterations per loop)
    pre_z = ze(pre, st0)
    s = z3.Solver()
    s.set('timeout', 5000)
    s.add(pre_z)
    for cond, st1, exited in run_sym(prog, st0, K):
        if not exited:
            continue
        s.push()
        s.add(cond)
        s.add(z3.Not(ze(post, st1)))
        r = str(s.check())
        if r == 'sat':
            m = s.model()
            init = {v: m.eval(st0[v], model_completion=True).as_long() for v in VARS}
            return 'triple-unsound', 'all VCs are valid but from initial state %s the program ends in a state violating the postcondition' % init, True
        s.pop()
        if r == 'unknown':
            return None, 'inconclusive triple', False
    return None, 'fine', True


def F(name, *args):
    return ('f', name) + tuple(args)


# assertions with applications of the global functions (abs, max) to compound arguments
FUN_ASSERTS = [B('==', F('abs', B('-', X, Y)), C0), B('<=', F('abs', X), Y), B('<', F('abs', B('+', X, C1)), C2), B('==', F('max', B('-', X, C1), C0), Y),
               B('==', F('max', X, Y), X), B('<=', F('max', B('+', X, Y), B('-', X, Y)), C2), B('==', F('abs', F('max', X, B('-', C0, Y))), C1),
               B('<=', Y, F('max', C0, B('*', C2, X)))]


def fun_family():
    """x := e (also followed by y := e') against postconditions with abs / max over compound arguments."""
    if 'fun' in _FAM:
        return _FAM['fun']
    es = [B('+', X, C1), B('-', X, C1), B('*', C2, X), C0, Y, B('-', Y, X), ('u', '-', X), F('abs', X), F('max', X, Y)]
    out = []
    for e in es:
        for post in FUN_ASSERTS:
            for pre in ('wp', B('==', X, Y), B('<=', C0, X), ('c', True)):
                out.append((('asg', 'x', e), post, pre))
                out.append((('seq', ('asg', 'y', X), ('asg', 'x', e)), post, pre))
                out.append((('if', B('<', X, Y), ('asg', 'x', e), ('asg', 'y', e)), post, pre))
    _FAM['fun'] = out
    return out


def steer_family():
    """Programs in which one variable only steers control flow:  x := e; if g(x) then y := c1 else y := c2  (also with the
    roles of a later assignment), with postconditions about y alone."""
    if 'steer' in _FAM:
        return _FAM['steer']
    es = [B('+', X, C1), B('-', X, C1), B('-', X, B('+', C2, C1)), B('*', C2, X), C0, Y, B('-', Y, X), ('u', '-', X)]
    gs = [B('<', C0, X), B('<', X, Y), B('==', X, C0), B('<=', X, C0), B('!=', X, C0), ('u', '~', B('<', X, C1))]
    posts = [B('==', Y, C1), B('<=', C0, Y), B('<', Y, C2)]
    out = []
    for e in es:
        for g in gs:
            for c1 in (C0, C1, C2):
                for c2 in (C0, C1, C2):
                    if c1 == c2:
                        continue
                    prog = ('seq', ('asg', 'x', e), ('if', g, ('asg', 'y', c1), ('asg', 'y', c2)))
                    for post in posts:
                        for pre in ('wp', B('<', C0, X), ('c', True)):
                            out.append((prog, post, pre))
    _FAM['steer'] = out
    return out


_FAM = {}


def run_triples(u, out):
    _, tier, seed, lo, n = u
    K = 3 if tier == 'quick' else 5
    rnd = random.Random('c20-%s-%s' % (seed, lo))
    steer = steer_family() if u[0] == 'steer' else fun_family() if u[0] == 'funs' else None
    for j in range(n):
        if steer is not None:
            if lo + j >= len(steer):
                break
            prog, post, pre = steer[lo + j]
        elif lo == 0 and j < len(LOOP_TEMPLATES) * 2:
            prog, post, pre = LOOP_TEMPLATES[j // 2]
            pre = pre if j % 2 == 0 else 'wp'
        else:
            prog = rand_com(rnd, 2)
            post = rnd.choice(ASSERTS)
            pre = rnd.choice(['wp', 'wp', ('c', True), rnd.choice(ASSERTS)])
        out['evals'] += 1
        if os.environ.get('VERIF_TWIN'):
            out['cex'].append({'kind': 'twin', 'part': 'triple'})
            continue
        try:
            kind, detail, judged = judge_triple(prog, pre, post, K)
        except NotImplementedError:
            continue
        if judged:
            out['keys'].add('t|%s|%s|%s' % (prog, pre, post))
        if detail.startswith('inconclusive'):
            out['inconclusive'] += 1
        if kind:
            out['cex'].append({'kind': kind, 'part': 'triple', 'prog': prog, 'pre': pre, 'post': post, 'K': K, 'detail': detail, 'sig': kind + '|' + str(prog)[:200] + str(post)})
            if len(out['cex']) >= 12:
                break
    out['samples'].append({'program': mk_com(prog).print_com({v: 'int' for v in VARS}) if True else None, 'post': str(mk_expr(post)), 'pre': pre if pre == 'wp' else str(mk_expr(pre))})


# ------------------------------------------------------------------ part 2: printed conditions and programs

def arith_exprs():
    base = [X, Y, C1]
    d1 = base + [B(o, a, b) for o in '+-*' for a in base for b in base]
    d2 = [B(o, a, b) for o in '+-*' for a in d1 for b in d1 if not (a in base and b in base)]
    d2 += [('u', '-', a) for a in d1[3:]] + [B(o, ('u', '-', a), b) for o in '+-*' for a in base for b in base] + [B(o, a, ('u', '-', b)) for o in '+-*' for a in base for b in base]
    return d2


def run_printed(u, out):
    from imperative import parser2
    _, tier, seed, mode, lo, hi = u
    st0 = {v: z3.Int(v) for v in VARS}
    if mode == 'arith':
        items = [B('==', e, C0) for e in arith_exprs()[lo:hi]]
    else:
        rnd = random.Random('c20p-%s-%s' % (seed, lo))
        atoms = CONDS + [B('==', e, C0) for e in rnd.sample(arith_exprs(), 6)]
        items = []

        def tree(depth):
            # uniformly nested connectives: every connective (incl. if-then-else) in every argument position of every other
            if depth == 0 or rnd.random() < 0.3:
                return rnd.choice(atoms)
            k = rnd.choice(['&', '|', '-->', '~', 'ite'])
            if k == '~':
                return ('u', '~', tree(depth - 1))
            if k == 'ite':
                return ('ite', tree(depth - 1), tree(depth - 1), tree(depth - 1))
            return B(k, tree(depth - 1), tree(depth - 1))
        for n in range(hi - lo):
            if n % 2:
                items.append(tree(3))
                continue
            a, b, c = rnd.choice(atoms), rnd.choice(atoms), rnd.choice(atoms)
            items.append(rnd.choice([B('&', a, B('|', b, c)), B('|', B('&', a, b), c), B('-->', B('-->', a, b), c), B('-->', a, B('-->', b, c)), ('u', '~', B('&', a, b)),
                                     B('&', ('u', '~', a), b), B('|', a, B('&', b, c)), B('&', B('|', a, b), c), B('-->', B('&', a, b), B('|', b, c)),
                                     ('ite', a, b, c), B('&', ('ite', a, b, c), a)]))
    for n, d in enumerate(items):
        e = mk_expr(d)
        out['evals'] += 1
        if os.environ.get('VERIF_TWIN'):
            out['cex'].append({'kind': 'twin', 'part': 'printed'})
            break
        txt = str(e)
        try:
            e2 = parser2.cond_parser.parse(txt)
        except Exception as ex:
            out['cex'].append({'kind': 'print-unparsable', 'part': 'printed', 'expr': d, 'detail': 'condition %r prints as "%s", which does not parse (%s)' % (e, txt, str(ex)[:60])})
            continue
        out['keys'].add('p|' + txt)
        try:
            r, m = zvalid(ze(e2, st0) == ze(e, st0))
        except z3.Z3Exception:
            r, m = 'sat', None
        if r == 'sat':
            out['cex'].append({'kind': 'print-differs', 'part': 'printed', 'expr': d,
                               'detail': 'condition %r is shown as "%s" which the parser reads as %r; they differ e.g. at %s' % (e, txt, e2, m), 'sig': 'print|' + txt})
        elif r == 'unknown':
            out['inconclusive'] += 1
        if len(out['cex']) >= 40:
            break
    out['samples'].append({'printed_condition': str(mk_expr(items[0])) if items else None})


# ------------------------------------------------------------------ part 3: eval_Sem

def hol_com(d, T):
    """nat-state HOL command from a description over variables 0,1 (x,y)."""
    from kernel.type import TFun, NatType
    from kernel.term import Var, Lambda, Nat, Eq, Not
    from kernel import term as HT
    from imperative import imp
    natFunT = TFun(NatType, NatType)
    s = Var('s', natFunT)
    idx = {'x': Nat(0), 'y': Nat(1)}

    def ex(e):
        k = e[0]
        if k == 'v':
            return s(idx[e[1]])
        if k == 'c':
            return Nat(e[1])
        a, b = ex(e[2]), ex(e[3])
        return {'+': HT.plus(NatType), '*': HT.times(NatType)}[e[1]](a, b)

    def cond(e):
        if e[0] == 'u':
            return Not(cond(e[2]))
        a, b = ex(e[2]), ex(e[3])
        return Eq(a, b) if e[1] == '==' else Not(Eq(a, b))
    k = d[0]
    if k == 'skip':
        return imp.Skip(natFunT)
    if k == 'asg':
        return imp.Assign(NatType, NatType)(idx[d[1]], Lambda(s, ex(d[2])))
    if k == 'seq':
        return imp.Seq(natFunT)(hol_com(d[1], T), hol_com(d[2], T))
    if k == 'if':
        return imp.Cond(natFunT)(Lambda(s, cond(d[1])), hol_com(d[2], T), hol_com(d[3], T))
    from kernel.term import true
    return imp.While(natFunT)(Lambda(s, cond(d[1])), Lambda(s, true), hol_com(d[3], T))


NEXPRS = [C0, C1, C2, X, Y, B('+', X, C1), B('+', X, Y), B('*', C2, X), B('+', Y, C1), B('*', X, Y)]
NCONDS = [B('==', X, C0), B('==', X, Y), ('u', '~', B('==', X, C2)), B('!=', Y, C0), B('==', B('+', X, C1), Y)]


def rand_ncom(rnd, depth):
    k = rnd.random()
    if depth == 0 or k < 0.35:
        return ('asg', rnd.choice(VARS), rnd.choice(NEXPRS)) if rnd.random() < 0.9 else ('skip',)
    if k < 0.7:
        return ('seq', rand_ncom(rnd, depth - 1), rand_ncom(rnd, depth - 1))
    if k < 0.9:
        return ('if', rnd.choice(NCONDS), rand_ncom(rnd, depth - 1), rand_ncom(rnd, depth - 1))
    # a loop that terminates quickly: while (x != 2) x := x + 1  style
    return ('while', ('u', '~', B('==', X, C2)), ('c', True), ('asg', 'x', B('+', X, C1)))


def check_eval_sem(d):
    """-> (kind or None, detail)"""
    from kernel.type import TFun, NatType
    from kernel.term import Nat, Eq
    from kernel import theory
    from kernel.thm import Thm
    from imperative import imp
    from data.function import mk_const_fun
    from vlib.symx import call_with_budget, NonTermination
    natFunT = TFun(NatType, NatType)
    ref = run_py(d, {'x': 0, 'y': 0}, 50)
    if ref is None:
        return None, 'reference does not terminate'
    c = hol_com(d, natFunT)
    st = mk_const_fun(NatType, Nat(0))
    try:
        pt = call_with_budget(imp.eval_Sem, 20.0, c, st)
    except (NonTermination, Exception) as e:
        return None, 'eval_Sem gave no result: %s' % type(e).__name__
    st2 = pt.prop.arg
    if not (pt.prop.head.is_const('Sem') and pt.prop.args[0] == c and pt.prop.args[1] == st):
        return 'evalsem-shape', 'eval_Sem returned %s' % pt.prop
    try:
        th = theory.check_proof(pt.export())
        if th.prop != pt.prop or th.hyps:
            return 'evalsem-proof', 'checker derives %s' % th
    except Exception as e:
        return 'evalsem-proof', 'proof rejected: %s: %s' % (type(e).__name__, str(e)[:100])
    for i, v in enumerate(VARS):
        ver = oracle().valid([], Eq(st2(Nat(i)), Nat(ref[v])))
        if ver.status == 'invalid':
            return 'evalsem-state', 'eval_Sem proves final state %s but the interpreter computes %s' % (st2, ref)
        if ver.status == 'unknown':
            return '_unknown', ''
    # the macro's evaluation agrees with its expansion
    try:
        goal = imp.Sem(natFunT)(c, st, st2)
        if not imp.eval_Sem_macro().can_eval(goal):
            return 'evalsem-macro', 'eval_Sem_macro.can_eval rejects its own result'
    except Exception as e:
        return 'evalsem-macro', 'eval_Sem_macro raised %r' % e
    return None, 'fine'


def run_evalsem(u, out):
    _, tier, seed, lo, n = u
    rnd = random.Random('c20e-%s-%s' % (seed, lo))
    for j in range(n):
        d = rand_ncom(rnd, 2)
        out['evals'] += 1
        if os.environ.get('VERIF_TWIN'):
            out['cex'].append({'kind': 'twin', 'part': 'evalsem'})
            break
        kind, detail = check_eval_sem(d)
        if kind == '_unknown':
            out['inconclusive'] += 1
        elif kind:
            out['cex'].append({'kind': kind, 'part': 'evalsem', 'prog': d, 'detail': detail})
        elif detail == 'fine':
            out['keys'].add('e|%s' % (d,))
    out['samples'].append({'eval_Sem_program': str(d)})


# ------------------------------------------------------------------ units / replay

def units(tier, seed):
    us = []
    total = 2500 if tier == 'quick' else 60000
    for lo in range(0, total, 125):
        us.append(('triples', tier, seed, lo, 125))
    ns = len(steer_family())
    for lo in range(0, ns, 250):
        us.append(('steer', tier, seed, lo, 250))
    nf = len(fun_family())
    for lo in range(0, nf, 108):
        us.append(('funs', tier, seed, lo, 108))
    na = len(arith_exprs())
    for lo in range(0, na, 300):
        us.append(('printed', tier, seed, 'arith', lo, lo + 300))
    total = 600 if tier == 'quick' else 20000
    for lo in range(0, total, 200):
        us.append(('printed', tier, seed, 'bool', lo, lo + 200))
    total = 150 if tier == 'quick' else 3000
    for lo in range(0, total, 10):
        us.append(('evalsem', tier, seed, lo, 10))
    random.Random(seed).shuffle(us)
    return us


def run_unit(u):
    out = {'evals': 0, 'keys': set(), 'cex': [], 'samples': [], 'inconclusive': 0, 'stats': {}}
    if u[0] in ('triples', 'steer', 'funs'):
        run_triples(u, out)
    elif u[0] == 'printed':
        run_printed(u, out)
    else:
        run_evalsem(u, out)
    out['keys'] = list(out['keys'])
    return out


def tot(x):
    return tuple(tot(y) for y in x) if isinstance(x, list) else x


def replay(c):
    if c['kind'] == 'twin':
        return True, 'twin'
    part = c['part']
    if part == 'printed':
        from imperative import parser2
        d = tot(c['expr'])
        e = mk_expr(d)
        txt = str(e)
        try:
            e2 = parser2.cond_parser.parse(txt)
        except Exception as ex:
            return c['kind'] == 'print-unparsable', 'condition %r prints as "%s" which does not parse' % (e, txt)
        # concrete witness search by brute force over small states (independent of z3)
        for xv in range(-3, 4):
            for yv in range(-3, 4):
                st = {'x': xv, 'y': yv}
                if pyeval(e, st) != pyeval(e2, st):
                    return True, 'condition %r is shown as "%s", re-parsed as %r; at x=%d y=%d they evaluate to %s vs %s' % (e, txt, e2, xv, yv, pyeval(e, st), pyeval(e2, st))
        return False, 'no difference on small states'
    if part == 'evalsem':
        kind, detail = check_eval_sem(tot(c['prog']))
        return kind == c['kind'], detail
    prog, pre, post = tot(c['prog']), tot(c['pre']) if c['pre'] != 'wp' else 'wp', tot(c['post'])
    kind, detail, _ = judge_triple(prog, pre, post, c['K'])
    if kind != c['kind']:
        return False, 'now: %s %s' % (kind, detail)
    if kind == 'triple-unsound':
        # run the concrete interpreter from the model's initial state
        import re
        m = re.search(r"initial state (\{[^}]*\})", detail)
        init = eval(m.group(1))
        final = run_py(prog, init, 100)
        cm = mk_com(prog)
        ok = final is not None and not pyeval(mk_expr(post), final)
        return ok, '%s; program %s from %s ends in %s, postcondition %s is %s' % (detail, cm.print_com({v: 'int' for v in VARS}), init, final, mk_expr(post), None if final is None else pyeval(mk_expr(post), final))
    return True, detail
