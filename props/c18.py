"""C18 -- each accepted veriT (Alethe) rule step is a logical consequence of its premises.

Rule-agnostic: every registered verit_* macro's *eval* is offered every member of the families below and simply rejects
(any exception) what it does not understand, so no per-rule template can hide a near miss.
  (a) propositional: premises = 0..2 theorems over formulas of depth <= 1 on p q; goal clause = tuples of <= 3 literals drawn
      from the sub-formulas of the premises, their negations and double negations, in every order (contains every correct
      instance within the bound and every near miss); th_resolution additionally with every clause-size vector.
  (b) equality / UF: atoms x=y, f x = f y, P x over three constants; chains with one link broken or reversed.
  (c) linear arithmetic: la_generic / la_disequality / la_rw_eq / *_simplify on literals a*x + b*y ~ c with Farkas
      coefficients from {1,2,1/2,-1}.
  (d) quantifiers: forall_inst and qnt_* on closed instances over one unary predicate.
  (e) boolean simplification equivalences lhs <--> rhs over p q r (nested connectives, ite, constants) for the rewriting rules.
  (f) comparison clauses: all clauses of <= 3 literals over x ~ y / y ~ x and their negations (orientation / direction near misses).
Oracle (S): whenever eval accepts, z3 proves  /\\ premises --> returned clause  (propositional + EUF + LIA/LRA +
quantifiers through holsmt; finite-model confirmation of counter-models), and the returned hypotheses are those of the premises.
"""
import itertools
import os
import random
import sys
import types
from fractions import Fraction

PID = 'C18'
LEVEL = 'other'
LEVEL_TEXT = ('All registered verit_* rule evaluators are driven rule-agnostically over bounded clause/premise families that contain every correct instance and every '
              'near miss within the bound; for every accepted step an SMT solver decides whether the clause follows from the premises (propositional, EUF, '
              'LIA/LRA, quantifiers). Known unsound rule instances are listed per rule in known_findings.json.')
LEVEL_NOTE = 'trusts z3 and holsmt (counter-models confirmed by the independent evaluator); the veriT binary is absent, so proofs it would emit are outside; widths/depths beyond the bound are outside the claim'
TECHNIQUE = 'rule-agnostic bounded-exhaustive instances through the real rule evaluators + SMT consequence oracle'
FUNCTIONS = ['smt.veriT.verit_macro:<all registered verit_* macros>.eval', 'smt.veriT.la_generic:LAGenericMacro.eval and the norm/round macros', 'kernel.proofterm:ProofTerm (eval mode)']
ASSUMPTIONS = [
    "the site-packages distribution `smt` shadows the repository's smt/ namespace package: the harness registers a module object `smt` with __path__ = [<repo>/smt] before importing smt.veriT.*",
    'families (a)-(d) as described in the module docstring; any exception from eval is a rejection',
    'quantifier rules are exercised but their verdicts are only as strong as the oracle (unknown => inconclusive)',
]
RULE = ('one evaluation = one (rule, arguments, premises) triple offered to eval; distinct = distinct accepted (rule, premises, clause) triples; '
        'non-trivial = accepted by the rule (then judged by the oracle)')
EXPLANATION = 'accepted steps are translated to SMT: premises and not(clause) must be unsat; sat models are re-evaluated by an independent evaluator'
BUDGET_S = {'quick': 240, 'thorough': 900}


def bounds(tier):
    return {'propositional': 'premise formulas depth <= 1 over p q (%s), clauses of <= 3 literals, 0-2 premises' % ('quick: second premise sampled' if tier == 'quick' else 'all pairs'),
            'equality': 'constants a b c, f unary, P unary; clauses <= 3 literals', 'arithmetic': 'x y, coefficients [-2,2], constants [-1,2], int and real; integer rounding: all pairs of literals k*x ~ c (k = 2,3,4; c in [-5,5]; 4 relations, both polarities) with Farkas coefficients (1,1)',
            'quantifier': 'one predicate, <= 2 bound variables',
            'boolean_simplification': 'lhs <--> rhs for the *_simplify / ac_simp / connective_def / refl / bfun_elim / not_not rules: lhs = one connective over literals of p q r true false, two nested connectives '
                                      '(%s), if-then-else, negations; rhs = literal, constant or one connective over literals (108)' % ('all 7^3 literal triples' if tier == 'thorough' else 'all triples of plain atoms + 1500 sampled triples with negated/constant members'),
            'comparison_clauses': 'all clauses of <= 3 literals over s ~ t, ~(s ~ t) with (s,t) in {(x,y),(y,x)}, ~ in {<=,<,>=,>,=}, int and real, as a clause and as one disjunction, offered to every rule'}


_S = {}


def setup(tier, seed):
    if 'done' in _S:
        return
    repo = os.environ.get('HOLPY_REPO', '/repo')
    m = types.ModuleType('smt')
    m.__path__ = [os.path.join(repo, 'smt')]
    sys.modules['smt'] = m
    from data import real  # noqa
    from logic import basic
    from smt.veriT import verit_macro, la_generic  # noqa
    basic.load_theory('smt')
    # several rule evaluators print debugging output
    import builtins
    _S['print'] = builtins.print
    verit_macro.print = lambda *a, **k: None
    la_generic.print = lambda *a, **k: None
    from kernel import theory
    _S['rules'] = sorted(k for k in theory.global_macros if k.startswith('verit_'))
    _S['done'] = True


def rules():
    return _S['rules']


# ------------------------------------------------------------------ families

def prop_formulas():
    from kernel.term import BoolVars, Not, And, Or, Implies, Eq, Const
    from kernel.type import BoolType, TFun
    p, q = BoolVars('p q')
    atoms = [p, q]
    ite = lambda c, a, b: Const('IF', TFun(BoolType, BoolType, BoolType, BoolType))(c, a, b)
    d1 = atoms + [Not(a) for a in atoms] + [f(a, b) for f in (And, Or, Implies, Eq) for a in atoms for b in atoms if not (a is b and f is Eq)]
    d1 += [ite(p, q, p), ite(q, p, q)]
    d1 += [Not(x) for x in d1[4:]]
    d1 += [And(p, q, p), Or(p, q, p), And(p, Or(q, p)), Or(p, And(q, p)), Not(Not(p))]
    return d1


def subf(t):
    from kernel.type import BoolType
    res = {t}
    if t.is_not():
        res |= subf(t.arg)
    elif t.is_conj() or t.is_disj() or t.is_implies() or (t.is_equals() and t.arg.get_type() == BoolType):
        res |= subf(t.arg1) | subf(t.arg)
    elif t.is_comb('IF', 3):
        for a in t.args:
            res |= subf(a)
    return res


def literal_pool(forms):
    from kernel.term import Not
    lits = set()
    for phi in forms:
        for x in subf(phi):
            lits |= {x, Not(x), Not(Not(x))}
    return sorted(lits, key=repr)


ORACLE = None


def oracle():
    global ORACLE
    if ORACLE is None:
        from vlib.holsmt import Oracle
        ORACLE = Oracle(timeout_ms=2000)
    return ORACLE


def judge(rule, args, prevs, th, out, rec):
    """th was returned by rule.eval(args, prevs)."""
    from kernel.thm import Thm
    if not isinstance(th, Thm):
        return
    key = '%s|%s|%r' % (rule, [repr(p.prop) for p in prevs], th.prop)
    if key in out['_seen']:
        return
    out['_seen'].add(key)
    out['keys'].add(key)
    if os.environ.get('VERIF_TWIN'):
        if len(out['cex']) < 3:
            out['cex'].append(dict(rec, kind='twin', rule=rule))
        return
    try:
        from kernel.type import BoolType
        ok_typed = th.prop.checked_get_type() == BoolType and all(h.checked_get_type() == BoolType for h in th.hyps)
    except Exception:
        ok_typed = False
    if not ok_typed:
        # an ill-typed clause has no meaning to compare with: counted, not judged
        out['inconclusive'] += 1
        out['illtyped'] = out.get('illtyped', 0) + 1
        return
    allowed = set()
    for p in prevs:
        allowed |= set(p.hyps)
    if any(h not in allowed for h in th.hyps):
        out['cex'].append(dict(rec, kind='hyps:' + rule, rule=rule, detail='%s returns %s whose hypotheses are not those of the premises %s' % (rule, th, prevs)))
        return
    hyps = [p.prop for p in prevs] + [h for p in prevs for h in p.hyps]
    v = oracle().valid(hyps, th.prop, key=key)
    if v.status == 'invalid':
        out['cex'].append(dict(rec, kind='unsound:' + rule, rule=rule,
                               detail='%s accepts clause %s from premises %s: returns %s, which does not follow (counter-model %s)' % (
                                   rule, [str(a) for a in (args if isinstance(args, tuple) else (args,))][:6], [str(p) for p in prevs], th, v.model),
                               sig='%s|%s|%s' % (rule, [str(p) for p in prevs], th.prop)))
    elif v.status == 'unknown':
        out['inconclusive'] += 1
    elif os.environ.get('VERIF_DUMP'):
        with open(os.environ['VERIF_DUMP'] + '.%d' % os.getpid(), 'a') as f:
            f.write(key + '\n')


def offer(rule, args, prevs, out, rec):
    from kernel import theory
    mac = theory.global_macros[rule]
    out['evals'] += 1
    try:
        th = mac.eval(args, prevs)
    except BaseException as e:   # noqa: a rule may reject with any exception, including AssertionError/SystemExit-free ones
        if isinstance(e, (KeyboardInterrupt, MemoryError)):
            raise
        return
    judge(rule, args, prevs, th, out, rec)


def run_prop(u, out):
    from kernel.thm import Thm
    from kernel.term import Or
    _, tier, seed, i0, j_mode = u
    forms = prop_formulas()
    phi = forms[i0]
    rl = rules()
    # premise sets: none, [phi], [phi, psi]
    premsets = [[], [Thm(phi)], [Thm(phi, phi)]]
    if j_mode == 'pairs':
        others = forms if tier == 'thorough' else random.Random('c18-%s-%s' % (seed, i0)).sample(forms, 5)
        for psi in others:
            premsets.append([Thm(phi), Thm(psi)])
    for prevs in premsets:
        pool = literal_pool([p.prop for p in prevs] if prevs else [phi])
        if len(prevs) == 2:
            # two premises: clauses of <= 2 literals (plus resolution with size vectors)
            maxn = 2
        else:
            maxn = 3
        for n in range(0, maxn + 1):
            for cl in itertools.product(pool, repeat=n):
                rec = {'part': 'prop', 'i': i0, 'prem': [forms.index(p.prop) for p in prevs], 'hyp': [bool(p.hyps) for p in prevs], 'cl': [pool.index(c) for c in cl]}
                for rn in rl:
                    if rn == 'verit_th_resolution':
                        continue
                    offer(rn, tuple(cl), prevs, out, dict(rec, rule=rn))
                if prevs:
                    sizes = [range(1, len(p.prop.strip_disj()) + 1) for p in prevs]
                    for sz in itertools.product(*sizes):
                        offer('verit_th_resolution', (tuple(cl), tuple(sz)), prevs, out, dict(rec, rule='verit_th_resolution', sizes=list(sz)))
            if len(out['cex']) > 400:
                break
    out['samples'].append({'premise': str(phi), 'clause_literal_pool': len(pool), 'rules': len(rl)})


def eq_family():
    from kernel.type import TVar, TFun, BoolType
    from kernel.term import Var, Eq, Not
    T = TVar('a')
    a, b, c = Var('a', T), Var('b', T), Var('c', T)
    f = Var('f', TFun(T, T))
    P = Var('P', TFun(T, BoolType))
    g = Var('g', TFun(T, T, T))
    atoms = [Eq(a, b), Eq(b, c), Eq(a, c), Eq(b, a), Eq(c, b), Eq(f(a), f(b)), Eq(f(b), f(a)), Eq(f(a), f(c)), Eq(a, a), Eq(g(a, b), g(b, c)), Eq(g(a, b), g(a, c)), P(a), P(b), Eq(f(a), b)]
    lits = atoms + [Not(x) for x in atoms]
    return atoms, lits


def run_eq(u, out):
    from kernel.thm import Thm
    _, tier, seed, i0 = u
    atoms, lits = eq_family()
    rl = rules()
    first = lits[i0]
    premsets = [[], [Thm(atoms[0])], [Thm(atoms[0]), Thm(atoms[1])], [Thm(atoms[5])], [Thm(atoms[11])], [Thm(atoms[1]), Thm(atoms[0])]]
    for prevs in premsets:
        for n in (1, 2, 3):
            for rest in itertools.product(lits, repeat=n - 1):
                cl = (first,) + rest
                rec = {'part': 'eq', 'cl': [lits.index(c) for c in cl], 'prem': [atoms.index(p.prop) for p in prevs]}
                for rn in rl:
                    if rn == 'verit_th_resolution':
                        continue
                    offer(rn, cl, prevs, out, dict(rec, rule=rn))
    out['samples'].append({'eq_first_literal': str(first)})


def arith_family(Tn):
    from kernel.type import IntType, RealType
    from kernel.term import Var, Number, Eq, Not
    from kernel import term as T
    ty = IntType if Tn == 'int' else RealType
    x, y = Var('x', ty), Var('y', ty)
    N = lambda n: Number(ty, n)
    lhs = [x, y, x + y, x - y, N(2) * x, N(2) * x + y, N(-1) * x, x + N(1), N(0)]
    rhs = [N(0), N(1), N(-1), y, x]
    atoms = []
    for l in lhs:
        for r in rhs:
            atoms += [T.less_eq(ty)(l, r), T.less(ty)(l, r), T.greater_eq(ty)(l, r), T.greater(ty)(l, r), Eq(l, r)]
    lits = atoms + [Not(a) for a in atoms]
    return ty, lits


def simp_family():
    """Single-literal clauses  lhs <--> rhs  for the *_simplify rules: lhs an (in)equality / comparison or its negation over
    variables, equal terms and distinct numerals; rhs true, false or a reduced form."""
    from kernel.type import IntType, RealType
    from kernel.term import Var, Number, Eq, Not, true, false, And, Or
    from kernel import term as T
    atoms, _ = eq_family()
    out = []
    lhs = list(atoms[:9])
    for ty in (IntType, RealType):
        x, y = Var('x', ty), Var('y', ty)
        N = lambda n: Number(ty, n)
        lhs += [Eq(x, y), Eq(x, x), Eq(N(1), N(2)), Eq(N(2), N(2)), Eq(x, N(0)), Eq(x + N(1), x), T.less(ty)(N(1), N(2)), T.less(ty)(N(2), N(1)), T.less(ty)(x, x), T.less_eq(ty)(x, x),
                T.less_eq(ty)(N(2), N(1)), T.less(ty)(x, y), T.greater_eq(ty)(x, y), T.less_eq(ty)(x + N(1), x)]
    for l in lhs:
        for ll in (l, Not(l), Not(Not(l))):
            for r in (true, false):
                out.append(Eq(ll, r))
    return out


def run_simp(u, out):
    goals = simp_family()
    rl = [r for r in rules() if r != 'verit_th_resolution']
    for i, g in enumerate(goals):
        for rn in rl:
            offer(rn, (g,), [], out, {'part': 'simp', 'i': i, 'rule': rn})
    out['samples'].append({'simplify_goal': str(goals[0]), 'goals': len(goals)})


def cong_family():
    """Congruence clauses with too few / exactly enough / too many premise equations for symbols of arity 1..3, and distinct-list
    equivalences with complete, truncated, extended and reoriented pair lists.  -> list of clauses (tuples of literals)"""
    from kernel.type import TVar, TFun, BoolType, TConst
    from kernel.term import Var, Eq, Not, And, Const
    from data import list as hol_list
    T = TVar('a')
    xs = [Var('x%d' % i, T) for i in range(1, 4)]
    ys = [Var('y%d' % i, T) for i in range(1, 4)]
    out = []
    for ar in (1, 2, 3):
        P = Var('P%d' % ar, TFun(*([T] * ar + [BoolType])))
        F = Var('F%d' % ar, TFun(*([T] * ar + [T])))
        for k in range(0, ar + 2):
            if k > 3:
                continue
            eqs = tuple(Not(Eq(xs[i], ys[i])) for i in range(min(k, 3)))
            out.append(eqs + (Not(P(*xs[:ar])), P(*ys[:ar])))
            out.append(eqs + (P(*xs[:ar]), Not(P(*ys[:ar]))))
            out.append(eqs + (Eq(F(*xs[:ar]), F(*ys[:ar])),))
        if ar >= 2:
            # premises given in swapped orientation / for the wrong positions
            eqs = tuple(Not(Eq(ys[i], xs[i])) for i in range(ar))
            out.append(eqs + (Not(P(*xs[:ar])), P(*ys[:ar])))
            out.append(eqs + (Eq(F(*xs[:ar]), F(*ys[:ar])),))
            eqs = tuple(Not(Eq(xs[i], ys[i])) for i in range(ar - 1)) + (Not(Eq(xs[0], ys[0])),)
            out.append(eqs + (Not(P(*xs[:ar])), P(*ys[:ar])))
            out.append(eqs + (Eq(F(*xs[:ar]), F(*ys[:ar])),))
    # distinct
    a = [Var(n, T) for n in 'abcd']
    dist = Const('distinct', TFun(TConst('list', T), BoolType))
    for n in (2, 3, 4):
        ts = a[:n]
        pairs = [Not(Eq(ts[i], ts[j])) for i in range(n) for j in range(i + 1, n)]
        lhs = dist(hol_list.mk_literal_list(ts, T))
        variants = [pairs, pairs[:-1], pairs[:1], pairs + [Not(Eq(ts[0], ts[1]))], [Not(Eq(p.arg.rhs, p.arg.lhs)) for p in pairs], pairs[1:], [p for i, p in enumerate(pairs) if i != 1] if len(pairs) > 2 else pairs]
        for v in variants:
            if v:
                out.append((Eq(lhs, And(*v)),))
    return out


def run_cong(u, out):
    cls = cong_family()
    rl = [r for r in rules() if r != 'verit_th_resolution']
    for i, cl in enumerate(cls):
        for rn in rl:
            offer(rn, cl, [], out, {'part': 'cong', 'i': i, 'rule': rn})
    out['samples'].append({'congruence_clause': [str(c) for c in cls[3]], 'clauses': len(cls)})


def bsimp_lhs(tier, seed):
    """Left-hand sides of boolean simplification equivalences over p q r: one connective over literals, two nested connectives
    (both associations), if-then-else, negations."""
    from kernel.term import BoolVars, Not, And, Or, Implies, Eq, Const, true, false
    from kernel.type import BoolType, TFun
    p, q, r = BoolVars('p q r')
    ite = lambda c, a, b: Const('IF', TFun(BoolType, BoolType, BoolType, BoolType))(c, a, b)
    L = [p, q, r, Not(p), Not(q), true, false]
    ops = (And, Or, Implies, Eq)
    out = []
    for f in ops:
        for a in L:
            for b in L:
                out.append(f(a, b))
                out.append(Not(f(a, b)))
    for a in L:
        out.append(Not(Not(a)))
        for b in L:
            for c in L:
                out.append(ite(a, b, c))
    nested = []
    for f in ops:
        for g in ops:
            for a in L:
                for b in L:
                    for c in L:
                        nested.append((f(a, g(b, c)), all(x in (p, q, r) for x in (a, b, c))))
                        nested.append((f(g(a, b), c), all(x in (p, q, r) for x in (a, b, c))))
    if tier == 'thorough':
        out += [t for t, _ in nested]
    else:
        out += [t for t, plain in nested if plain]
        rest = [t for t, plain in nested if not plain]
        out += random.Random('c18b-%s' % seed).sample(rest, 1500)
    return out


def bsimp_rhs():
    from kernel.term import BoolVars, Not, And, Or, Implies, Eq, true, false
    p, q, r = BoolVars('p q r')
    L = [p, q, r, Not(p), Not(q)]
    return [p, q, r, Not(p), Not(q), Not(r), true, false] + [f(a, b) for f in (And, Or, Implies, Eq) for a in L for b in L]


def bsimp_rules():
    return [r for r in rules() if 'simplify' in r or r in ('verit_ac_simp', 'verit_connective_def', 'verit_refl', 'verit_bfun_elim', 'verit_not_not')]


def run_bsimp(u, out):
    from kernel.term import Eq
    _, tier, seed, lo, hi = u
    lhs = bsimp_lhs(tier, seed)
    rhs = bsimp_rhs()
    rl = bsimp_rules()
    for i in range(lo, min(hi, len(lhs))):
        for j, r in enumerate(rhs):
            g = Eq(lhs[i], r)
            for rn in rl:
                offer(rn, (g,), [], out, {'part': 'bsimp', 'tier': tier, 'seed': seed, 'i': i, 'j': j, 'rule': rn})
    out['samples'].append({'boolean_simplification_goal': str(Eq(lhs[lo], rhs[0])), 'lhs': len(lhs), 'rhs': len(rhs), 'rules': len(rl)})


def arith3_family(Tn):
    """Every literal  s ~ t / ~(s ~ t)  over the ordered pairs (x,y) (y,x) and the five relations: clauses of <= 3 of them contain every
    orientation / direction near miss of the comparison lemmas (la_disequality, la_totality, la_tautology, comp_simplify, ...)."""
    from kernel.type import IntType, RealType
    from kernel.term import Var, Eq, Not
    from kernel import term as T
    ty = IntType if Tn == 'int' else RealType
    x, y = Var('x', ty), Var('y', ty)
    atoms = []
    for (l, r) in ((x, y), (y, x)):
        atoms += [T.less_eq(ty)(l, r), T.less(ty)(l, r), T.greater_eq(ty)(l, r), T.greater(ty)(l, r), Eq(l, r)]
    return atoms + [Not(a) for a in atoms]


def run_arith3(u, out):
    from kernel.term import Or
    _, tier, seed, Tn, i0 = u
    lits = arith3_family(Tn)
    rl = [r for r in rules() if r != 'verit_th_resolution']
    first = lits[i0]
    for n in (1, 2, 3):
        for rest in itertools.product(range(len(lits)), repeat=n - 1):
            cl = (first,) + tuple(lits[k] for k in rest)
            rec = {'part': 'arith3', 'T': Tn, 'cl': [i0] + list(rest)}
            for rn in rl:
                offer(rn, cl, [], out, dict(rec, rule=rn))
            if n > 1:
                # some lemmas take the whole disjunction as one argument
                one = (Or(*cl),)
                for rn in rl:
                    offer(rn, one, [], out, dict(rec, rule=rn, variant='disj'))
    out['samples'].append({'comparison_clause_first_literal': str(first), 'type': Tn})


def round_family(k):
    """Integer literals over the single form k*x: k*x ~ c and their negations, c in [-5,5] (integer rounding of bounds)."""
    from kernel.type import IntType
    from kernel.term import Var, Number, Not
    from kernel import term as T
    x = Var('x', IntType)
    f = T.times(IntType)(Number(IntType, k), x)
    lits = []
    for c in range(-5, 6):
        for rel in (T.less, T.less_eq, T.greater, T.greater_eq):
            a = rel(IntType)(f, Number(IntType, c))
            lits += [a, Not(a)]
    return lits


def run_round(u, out):
    from kernel.term import Number
    from kernel.type import IntType
    _, tier, seed, k, lo, hi = u
    lits = round_family(k)
    one = Number(IntType, 1)
    for i in range(lo, min(hi, len(lits))):
        for j in range(len(lits)):
            cl = (lits[i], lits[j])
            offer('verit_la_generic', cl + ([one, one],), [], out, {'part': 'round', 'k': k, 'cl': [i, j], 'rule': 'verit_la_generic'})
    out['samples'].append({'rounding_clause': [str(lits[lo]), str(lits[0])], 'form': '%d * x' % k})


def run_arith(u, out):
    from kernel.thm import Thm
    from kernel.term import Number
    _, tier, seed, Tn, lo, hi = u
    ty, lits = arith_family(Tn)
    rnd = random.Random('c18a-%s-%s-%s' % (seed, Tn, lo))
    rl = [r for r in rules() if r != 'verit_th_resolution']
    coefs = [Number(ty, c) for c in ((1, 2, -1, 0) if Tn == 'int' else (1, 2, Fraction(1, 2), -1, 0))]
    for k in range(lo, hi):
        n = rnd.choice([1, 2, 2, 3])
        cl = tuple(rnd.choice(lits) for _ in range(n))
        rec = {'part': 'arith', 'T': Tn, 'seed': seed, 'lo': lo, 'k': k}
        for rn in rl:
            offer(rn, cl, [], out, dict(rec, rule=rn, variant='plain'))
        # la_generic with Farkas coefficients; la_tautology as la_generic with []
        for cf in itertools.product(coefs, repeat=n):
            offer('verit_la_generic', cl + (list(cf),), [], out, dict(rec, rule='verit_la_generic', variant='coeffs', cf=[str(c) for c in cf]))
        offer('verit_la_generic', cl + ([],), [], out, dict(rec, rule='verit_la_generic', variant='tautology'))
        prem = rnd.choice(lits)
        for rn in rl:
            offer(rn, cl, [Thm(prem)], out, dict(rec, rule=rn, variant='prem', prem=lits.index(prem)))
    out['samples'].append({'arith_clause': [str(c) for c in cl], 'type': Tn})


def quant_family():
    from kernel.type import TVar, TFun, BoolType
    from kernel.term import Var, Eq, Not, Forall, Exists, And, Or, Implies
    T = TVar('a')
    x, y = Var('x', T), Var('y', T)
    a, b = Var('a', T), Var('b', T)
    P = Var('P', TFun(T, BoolType))
    Q = Var('Q', TFun(T, T, BoolType))
    fs = [Forall(x, P(x)), Exists(x, P(x)), Forall(x, Forall(y, Q(x, y))), Forall(x, Or(P(x), P(a))), Forall(x, And(P(x), P(a))), Forall(x, P(a)), Exists(x, P(a)),
          Forall(x, Implies(P(x), P(a))), Forall(x, Eq(x, a)), Exists(x, Eq(x, a))]
    inst = [P(a), P(b), Q(a, b), Q(a, a), Or(P(a), P(a)), And(P(a), P(a)), P(x), Eq(a, a), Eq(b, a), Implies(P(a), P(a)), Implies(P(b), P(a))]
    forms = fs + inst
    lits = forms + [Not(f) for f in forms] + [Eq(f, g) for f in fs for g in forms if f.get_type() == g.get_type()][:60] + [Implies(f, g) for f in fs for g in inst][:40]
    return fs, lits, [a, b]


def run_quant(u, out):
    from kernel.thm import Thm
    from kernel.term import Eq
    _, tier, seed, i0 = u
    fs, lits, consts = quant_family()
    rl = [r for r in rules() if r != 'verit_th_resolution']
    first = lits[i0]
    for prevs in ([], [Thm(fs[0])], [Thm(fs[2])], [Thm(fs[1])]):
        for n in (1, 2):
            for rest in itertools.product(lits[:40], repeat=n - 1):
                cl = (first,) + rest
                rec = {'part': 'quant', 'cl': [lits.index(c) for c in cl], 'prem': [fs.index(p.prop) for p in prevs]}
                for rn in rl:
                    offer(rn, cl, prevs, out, dict(rec, rule=rn, variant='plain'))
                # forall_inst carries the instantiation as extra arguments (x := t)
                for t in consts:
                    x = fs[0].arg.var_name
                    from kernel.term import Var
                    xv = Var('x', t.T)
                    offer('verit_forall_inst', cl + (Eq(xv, t),), prevs, out, dict(rec, rule='verit_forall_inst', variant='inst', t=consts.index(t)))
    out['samples'].append({'quant_first_literal': str(first)})


# ------------------------------------------------------------------ units / replay

def units(tier, seed):
    us = []
    nf = len(prop_formulas())
    for i in range(nf):
        us.append(('prop', tier, seed, i, 'single'))
        us.append(('prop', tier, seed, i, 'pairs'))
    atoms, lits = eq_family()
    for i in range(len(lits)):
        us.append(('eq', tier, seed, i))
    total = 600 if tier == 'quick' else 20000
    for Tn in ('int', 'real'):
        for lo in range(0, total, 50):
            us.append(('arith', tier, seed, Tn, lo, lo + 50))
    us.append(('simp', tier, seed))
    us.append(('cong', tier, seed))
    nb = len(bsimp_lhs(tier, seed))
    for lo in range(0, nb, 100):
        us.append(('bsimp', tier, seed, lo, lo + 100))
    for Tn in ('int', 'real'):
        for i in range(len(arith3_family(Tn))):
            us.append(('arith3', tier, seed, Tn, i))
    for k in (2, 3, 4):
        nl = len(round_family(k))
        for lo in range(0, nl, 11):
            us.append(('round', tier, seed, k, lo, lo + 11))
    fs, qlits, _ = quant_family()
    for i in range(len(qlits) if tier == 'thorough' else 60):
        us.append(('quant', tier, seed, i))
    random.Random(seed).shuffle(us)
    return us


def run_unit(u):
    out = {'evals': 0, 'keys': set(), 'cex': [], 'samples': [], 'inconclusive': 0, 'stats': {}, '_seen': set()}
    if u[0] == 'prop':
        if u[4] == 'single':
            run_prop(u, out)
        else:
            run_prop_pairs(u, out)
    elif u[0] == 'eq':
        run_eq(u, out)
    elif u[0] == 'arith':
        run_arith(u, out)
    elif u[0] == 'round':
        run_round(u, out)
    elif u[0] == 'simp':
        run_simp(u, out)
    elif u[0] == 'cong':
        run_cong(u, out)
    elif u[0] == 'bsimp':
        run_bsimp(u, out)
    elif u[0] == 'arith3':
        run_arith3(u, out)
    else:
        run_quant(u, out)
    del out['_seen']
    # keep at most 6 counterexamples per kind per unit
    kept, cnt = [], {}
    for c in out['cex']:
        cnt[c['kind']] = cnt.get(c['kind'], 0) + 1
        if cnt[c['kind']] <= 6:
            kept.append(c)
    out['stats'] = {'unsound_instances_by_rule': {k: v for k, v in cnt.items()}, 'illtyped_results': out.pop('illtyped', 0)}
    out['cex'] = kept
    o = ORACLE
    if o is not None:
        out['stats'].update({'oracle_calls': o.calls, 'oracle_queries': o.queries, 'oracle_s': round(o.seconds, 3)})
        o.calls = o.queries = 0
        o.seconds = 0.0
    out['keys'] = list(out['keys'])
    return out


def run_prop_pairs(u, out):
    from kernel.thm import Thm
    _, tier, seed, i0, _m = u
    forms = prop_formulas()
    phi = forms[i0]
    rl = rules()
    others = forms if tier == 'thorough' else random.Random('c18-%s-%s' % (seed, i0)).sample(forms, 4)
    for psi in others:
        prevs = [Thm(phi), Thm(psi)]
        pool = literal_pool([phi, psi])
        for n in range(0, 3):
            for cl in itertools.product(pool, repeat=n):
                rec = {'part': 'prop2', 'i': i0, 'prem': [forms.index(phi), forms.index(psi)], 'hyp': [False, False], 'cl': [pool.index(c) for c in cl]}
                for rn in rl:
                    if rn == 'verit_th_resolution':
                        continue
                    offer(rn, tuple(cl), prevs, out, dict(rec, rule=rn))
                sizes = [range(1, len(p.prop.strip_disj()) + 1) for p in prevs]
                for sz in itertools.product(*sizes):
                    offer('verit_th_resolution', (tuple(cl), tuple(sz)), prevs, out, dict(rec, rule='verit_th_resolution', sizes=list(sz)))
    out['samples'].append({'premises': [str(phi), str(psi)]})


def rebuild(c):
    """-> (rule, args, prevs) from a counterexample record."""
    from kernel.thm import Thm
    part = c['part']
    rule = c['rule']
    if part in ('prop', 'prop2'):
        forms = prop_formulas()
        prevs = []
        for k, i in enumerate(c['prem']):
            f = forms[i]
            prevs.append(Thm(f, f) if c['hyp'][k] else Thm(f))
        pool = literal_pool([p.prop for p in prevs] if prevs else [forms[c['i']]])
        cl = tuple(pool[i] for i in c['cl'])
        args = (cl, tuple(c['sizes'])) if rule == 'verit_th_resolution' else cl
        return rule, args, prevs
    if part == 'eq':
        atoms, lits = eq_family()
        return rule, tuple(lits[i] for i in c['cl']), [Thm(atoms[i]) for i in c['prem']]
    if part == 'quant':
        fs, lits, consts = quant_family()
        cl = tuple(lits[i] for i in c['cl'])
        if c.get('variant') == 'inst':
            from kernel.term import Var, Eq
            t = consts[c['t']]
            cl = cl + (Eq(Var('x', t.T), t),)
        return rule, cl, [Thm(fs[i]) for i in c['prem']]
    if part == 'simp':
        return rule, (simp_family()[c['i']],), []
    if part == 'cong':
        return rule, cong_family()[c['i']], []
    if part == 'bsimp':
        from kernel.term import Eq
        return rule, (Eq(bsimp_lhs(c['tier'], c['seed'])[c['i']], bsimp_rhs()[c['j']]),), []
    if part == 'arith3':
        lits = arith3_family(c['T'])
        cl = tuple(lits[i] for i in c['cl'])
        if c.get('variant') == 'disj':
            from kernel.term import Or
            cl = (Or(*cl),)
        return rule, cl, []
    if part == 'round':
        from kernel.term import Number
        from kernel.type import IntType
        lits = round_family(c['k'])
        one = Number(IntType, 1)
        return rule, (lits[c['cl'][0]], lits[c['cl'][1]], [one, one]), []
    # arith: regenerate the stream
    from kernel.term import Number
    ty, lits = arith_family(c['T'])
    rnd = random.Random('c18a-%s-%s-%s' % (c['seed'], c['T'], c['lo']))
    coefs = [Number(ty, x) for x in ((1, 2, -1, 0) if c['T'] == 'int' else (1, 2, Fraction(1, 2), -1, 0))]
    for k in range(c['lo'], c['k'] + 1):
        n = rnd.choice([1, 2, 2, 3])
        cl = tuple(rnd.choice(lits) for _ in range(n))
        prem = rnd.choice(lits)
    v = c.get('variant')
    if v == 'coeffs':
        for cf in itertools.product(coefs, repeat=n):
            if [str(x) for x in cf] == c['cf']:
                return rule, cl + (list(cf),), []
    if v == 'tautology':
        return rule, cl + ([],), []
    if v == 'prem':
        return rule, cl, [Thm(prem)]
    return rule, cl, []


def replay(c):
    from kernel import theory
    if c['kind'] == 'twin':
        return True, 'twin'
    rule, args, prevs = rebuild(c)
    try:
        th = theory.global_macros[rule].eval(args, prevs)
    except BaseException as e:  # noqa
        return False, 'rejected now: %r' % e
    # in evaluation mode the reconstruction builds ProofTerm(macro, args, prevs), which trusts eval
    out = {'evals': 0, 'keys': set(), 'cex': [], 'inconclusive': 0, '_seen': set()}
    judge(rule, args, prevs, th, out, {})
    for x in out['cex']:
        if x['kind'] == c['kind']:
            return True, x['detail']
    return False, 'not reproduced (%s)' % th
