"""C09 -- a successful match really instantiates the pattern to the target.

Inputs (E): patterns over schematic variables ?x ?y ?f ?P ?h at the schematic type ?'a (first-order patterns, Miller
patterns under <= 2 binders, repeated schematic variables, non-pattern applications that take the heuristic branch),
targets obtained by instantiating the pattern with pool terms *and* all unrelated targets, pre-seeded instantiations
(consistent, conflicting, with a type instantiation).
Oracle: whenever first_order_match succeeds:
  * pat.subst_norm(inst) does not raise and equals target.beta_norm() up to eta (independent eta-normaliser on tuple forms);
  * (S) the equation pat[inst] = target is valid in every model (holsmt) -- cross-check of the beta/eta step;
  * inst extends the seed and the caller's Inst object (deep snapshot) is unchanged;
for first-order patterns built as pat[sigma] matching must succeed (completeness); first_order_match_list likewise.
"""
import itertools
import os
import random

PID = 'C09'
LEVEL = 'exploration'
LEVEL_TEXT = ('Bounded-exhaustive exploration of (pattern, target, seed) triples through the real matcher with structural oracles (apply the instantiation, compare up to '
              'beta-eta with an independent normaliser, seed preservation, completeness on first-order patterns); an SMT validity query on pat[inst] = target adds a semantic '
              'cross-check. No scalar stays symbolic in this code (names and structure drive everything), so this is exploration, not a symbolic proof.')
LEVEL_NOTE = 'trusts the independent beta-eta normaliser in this file and holsmt; patterns/targets beyond the enumerated family are outside the claim'
TECHNIQUE = 'bounded-exhaustive pattern/target/seed triples through the real matcher + independent beta-eta normaliser + SMT cross-check'
FUNCTIONS = ['logic.matcher:first_order_match/first_order_match_list/is_pattern/is_pattern_list', 'kernel.term:Term.subst_norm/subst/beta_norm', 'kernel.term:Inst.__copy__']
ASSUMPTIONS = ['pattern family and instantiation pool as listed under bounds; targets are beta-normal closed terms at type a',
               'eta-equality is decided by an independent normaliser on exported tuple forms',
               'MatchException is the matcher\'s own failure; any other exception on these inputs is reported']
RULE = ('one evaluation = one (pattern, target, seed) triple; distinct = distinct triples; non-trivial = the match succeeded (its result was then applied and compared) or the '
        'triple is a first-order instance (completeness)')
EXPLANATION = 'see LEVEL_TEXT; the SMT query pat[inst] = target is decided over all models with type variables as uninterpreted sorts (finite-model fallback)'
BUDGET_S = {'quick': 240, 'thorough': 900}


def bounds(tier):
    f = family()
    return {'patterns': len(f['pats']), 'targets': len(f['targets']), 'seeds': len(f['seeds']), 'pattern_lists': 200 if tier == 'quick' else 40000, 'generated_patterns': '%d seeded (grammar: first-order and higher-order schematic variables under 0-2 binders), each against 3 of its instances and 2 unrelated targets, 3 seeds' % (300 if tier == 'quick' else 20000)}


def setup(tier, seed):
    from logic import basic
    basic.load_theory('logic_base')


_F = {}


def family():
    if _F:
        return _F
    from kernel.type import TVar, STVar, TFun, BoolType, TyInst
    from kernel.term import Var, SVar, Comb, Abs, Bound, Lambda, Eq, Forall, Inst, Const
    A, SA = TVar('a'), STVar('a')
    # targets at type 'a
    a, b = Var('a', A), Var('b', A)
    f = Var('f', TFun(A, A))
    g = Var('g', TFun(A, A, A))
    P = Var('P', TFun(A, BoolType))
    u, v = Var('u', A), Var('v', A)
    closedA = [a, b, f(a), g(a, b), g(b, b), f(f(a))]
    funs = [f, Lambda(u, g(u, a)), Lambda(u, u), Lambda(u, a), Lambda(u, g(u, u)), Lambda(u, g(f(u), u))]
    preds = [P, Lambda(u, Eq(u, a)), Lambda(u, P(f(u)))]
    fun2 = [g, Lambda(u, Lambda(v, g(v, u))), Lambda(u, Lambda(v, u)), Lambda(u, Lambda(v, g(g(f(v), u), v))), Lambda(u, Lambda(v, g(f(u), v)))]
    # patterns at the schematic type ?'a
    x, y = SVar('x', SA), SVar('y', SA)
    sf = SVar('F', TFun(SA, SA))
    sP = SVar('Q', TFun(SA, BoolType))
    sh = SVar('H', TFun(SA, SA, SA))
    fS = Var('f', TFun(SA, SA))
    gS = Var('g', TFun(SA, SA, SA))
    PS = Var('P', TFun(SA, BoolType))
    aS = Var('a', SA)
    uS, vS = Var('u', SA), Var('v', SA)
    fo = [x, fS(x), gS(x, y), gS(x, x), gS(fS(x), y), gS(x, aS), fS(fS(x)), Eq(x, y), Eq(fS(x), x), PS(x), Lambda(uS, gS(uS, x)), Forall(uS, Eq(gS(uS, x), y)),
          # a plain schematic variable under two binders (it may depend on neither bound variable)
          Lambda(uS, Lambda(vS, x)), Lambda(uS, Lambda(vS, gS(x, vS))), Forall(uS, Forall(vS, Eq(x, vS))),
          # patterns without schematic term variables: only the type is instantiated
          Lambda(uS, uS), fS(aS), Forall(uS, Eq(uS, uS)), Lambda(uS, gS(uS, aS))]
    ho = [sf(x), sP(x), Lambda(uS, sf(uS)), Forall(uS, sP(uS)), Lambda(uS, gS(sf(uS), x)), sf(aS), sP(fS(x)), Lambda(uS, Lambda(vS, sh(uS, vS))), Lambda(uS, Lambda(vS, sh(vS, uS))),
          Lambda(uS, sh(uS, uS)), Eq(sf(x), y), Forall(uS, Eq(sf(uS), gS(uS, x))), gS(sf(x), sf(y)), Lambda(uS, sf(gS(uS, x))), sh(x, y), Forall(uS, Forall(vS, sP(gS(uS, vS))))]
    pats = [('fo', p) for p in fo] + [('ho', p) for p in ho]
    pools = {'x': closedA, 'y': closedA, 'F': funs, 'Q': preds, 'H': fun2}
    _F.update({'pats': pats, 'pools': pools, 'A': A, 'SA': SA})
    # targets: all instances (bounded) + extra unrelated terms
    targets = []
    seen = set()
    inst_of = {}
    rnd = random.Random(7)
    for pi, (kind, p) in enumerate(pats):
        names = sorted({sv.name for sv in p.get_svars()})
        combos = list(itertools.product(*[range(len(pools[n])) for n in names]))
        if len(combos) > 40:
            combos = rnd.sample(combos, 40)
        for combo in combos:
            inst = Inst(**{n: pools[n][i] for n, i in zip(names, combo)})
            inst.tyinst = TyInst(a=A)
            try:
                t = p.subst_type(inst.tyinst).subst(Inst(**{n: pools[n][i] for n, i in zip(names, combo)})).beta_norm()
            except Exception:
                continue
            k = repr(t)
            if k not in seen:
                seen.add(k)
                targets.append(t)
            inst_of.setdefault(pi, []).append(len(targets) - 1 if k not in inst_of.get('idx', {}) else inst_of['idx'][k])
            inst_of.setdefault('idx', {})[k] = inst_of['idx'].get(k, len(targets) - 1) if k in inst_of.get('idx', {}) else len(targets) - 1
    # also the same terms at another type variable 'b and at nat, to exercise type matching
    from kernel.type import NatType
    B = TVar('b')
    targets += [Var('a', B), Comb(Var('f', TFun(B, B)), Var('a', B)), Var('n', NatType), Eq(Var('n', NatType), Var('n', NatType))]
    _F['targets'] = targets
    _F['instances'] = {pi: sorted(set(v)) for pi, v in inst_of.items() if pi != 'idx'}
    # (the last three: seed values mentioning variables named like the binders of the patterns)
    seeds = [None, {}, {'x': a}, {'x': b}, {'y': f(a)}, {'x': a, 'ty': A}, {'ty': NatType}, {'F': f}, {'x': Var('n', NatType)},
             {'x': u}, {'y': g(u, v)}, {'x': v, 'y': u}]
    _F['seeds'] = seeds
    return _F


def mk_seed(d):
    from kernel.term import Inst
    from kernel.type import TyInst
    if d is None:
        return None
    inst = Inst(**{k: v for k, v in d.items() if k != 'ty'})
    if 'ty' in d:
        inst.tyinst = TyInst(a=d['ty'])
    return inst


# ------------------------------------------------------------------ independent beta-eta normal form on tuple exports

def tyx(T):
    if T.is_stvar():
        return ('?', T.name)
    if T.is_tvar():
        return ("'", T.name)
    return (T.name,) + tuple(tyx(x) for x in T.args)


def export(t):
    if t.is_var():
        return ('V', t.name, tyx(t.T))
    if t.is_svar():
        return ('S', t.name, tyx(t.T))
    if t.is_const():
        return ('C', t.name, tyx(t.T))
    if t.is_bound():
        return ('B', int(t.n))
    if t.is_abs():
        return ('A', tyx(t.var_T), export(t.body))
    return ('@', export(t.fun), export(t.arg))


def shift(t, inc, lev=0):
    k = t[0]
    if k == 'B':
        return ('B', t[1] + inc) if t[1] >= lev else t
    if k == 'A':
        return ('A', t[1], shift(t[2], inc, lev + 1))
    if k == '@':
        return ('@', shift(t[1], inc, lev), shift(t[2], inc, lev))
    return t


def sb(body, s, n=0):
    k = body[0]
    if k == 'B':
        if body[1] == n:
            return shift(s, n)
        return ('B', body[1] - 1) if body[1] > n else body
    if k == 'A':
        return ('A', body[1], sb(body[2], s, n + 1))
    if k == '@':
        return ('@', sb(body[1], s, n), sb(body[2], s, n))
    return body


def occurs0(t, n=0):
    k = t[0]
    if k == 'B':
        return t[1] == n
    if k == 'A':
        return occurs0(t[2], n + 1)
    if k == '@':
        return occurs0(t[1], n) or occurs0(t[2], n)
    return False


def benf(t, fuel=300):
    """beta-eta normal form."""
    k = t[0]
    if k == '@':
        f, a = benf(t[1], fuel), benf(t[2], fuel)
        if f[0] == 'A':
            return benf(sb(f[2], a), fuel - 1)
        return ('@', f, a)
    if k == 'A':
        b = benf(t[2], fuel)
        if b[0] == '@' and b[2] == ('B', 0) and not occurs0(b[1]):
            return shift(b[1], -1)
        return ('A', t[1], b)
    return t


def snapshot(inst):
    if inst is None:
        return None
    return (sorted((k, repr(v)) for k, v in inst.items()), sorted((k, repr(v)) for k, v in inst.tyinst.items()), sorted(inst.var_inst.items(), key=str), sorted(inst.abs_name_inst.items()))


ORACLE = None


def oracle():
    global ORACLE
    if ORACLE is None:
        from vlib.holsmt import Oracle
        ORACLE = Oracle(timeout_ms=1500)
    return ORACLE


def check_match(pat, kind, target, seed_d, is_instance):
    """-> (violation kind or None, detail, matched: bool)"""
    from logic import matcher
    from logic.matcher import MatchException
    from kernel.term import Eq
    seed = mk_seed(seed_d)
    snap = snapshot(seed)
    try:
        inst = matcher.first_order_match(pat, target, seed)
    except MatchException:
        if snapshot(seed) != snap:
            return 'match-seed-mutated', 'failed match of %s with %s modified the caller\'s instantiation' % (pat, target), False
        if is_instance and kind == 'fo' and seed_d in (None, {}):
            return 'match-incomplete', 'first-order pattern %s does not match its own instance %s' % (pat, target), False
        return None, 'no match', False
    except Exception as e:
        return 'match-exception', 'matching %s with %s (seed %s) raised %s: %s' % (pat, target, seed_d, type(e).__name__, str(e)[:80]), False
    if snapshot(seed) != snap:
        return 'match-seed-mutated', 'successful match of %s with %s modified the caller\'s instantiation' % (pat, target), True
    if seed is not None:
        for k, v in seed.items():
            if k not in inst or inst[k] != v:
                return 'match-seed-altered', 'seed %s := %s is not kept in the result %s' % (k, v, inst), True
        for k, v in seed.tyinst.items():
            if k not in inst.tyinst or inst.tyinst[k] != v:
                return 'match-seed-altered', 'seed type %s := %s is not kept in the result' % (k, v), True
    try:
        res = pat.subst_norm(inst)
    except Exception as e:
        return 'match-unusable', 'match of %s with %s succeeds with %s, but applying it raises %s: %s' % (pat, target, inst, type(e).__name__, str(e)[:80]), True
    if benf(export(res)) != benf(export(target)):
        return 'match-wrong', 'match of %s with %s gives %s; the instantiated pattern is %s, not the target (up to beta-eta)' % (pat, target, inst, res), True
    # semantic cross-check
    try:
        if res.get_type() == target.get_type():
            v = oracle().valid([], Eq(res, target))
            if v.status == 'invalid':
                return 'match-denotation', 'pat[inst] = %s and target %s differ in a model: %s' % (res, target, v.model), True
    except Exception:
        pass
    return None, 'fine', True


def run_pairs(u, out):
    _, tier, seed, pi = u
    F = family()
    kind, pat = F['pats'][pi]
    insts = set(F['instances'].get(pi, []))
    for ti, target in enumerate(F['targets']):
        for si, sd in enumerate(F['seeds']):
            out['evals'] += 1
            if os.environ.get('VERIF_TWIN'):
                if len(out['cex']) < 2:
                    out['cex'].append({'kind': 'twin', 'part': 'pair'})
                continue
            k, detail, matched = check_match(pat, kind, target, sd, ti in insts)
            if matched or (ti in insts):
                out['keys'].add('%d|%d|%d' % (pi, ti, si))
            if k:
                out['cex'].append({'kind': k, 'part': 'pair', 'pat': pi, 'target': ti, 'seed': si, 'detail': detail, 'sig': '%s|%d|%d|%d' % (k, pi, ti, si)})
    out['samples'].append({'pattern': str(pat), 'targets': len(F['targets']), 'seeds': len(F['seeds'])})


def gen_pattern(rnd):
    """A random well-typed pattern over the schematic signature: schematic variables ?x ?y (first order), ?F ?Q ?H (applied to
    bound variables: Miller patterns, or to arbitrary terms: non-patterns), under 0-2 binders.  -> (kind, pattern)"""
    from kernel.type import STVar, TFun, BoolType
    from kernel.term import Var, SVar, Lambda, Eq, Forall
    SA = STVar('a')
    x, y = SVar('x', SA), SVar('y', SA)
    sf, sP, sh = SVar('F', TFun(SA, SA)), SVar('Q', TFun(SA, BoolType)), SVar('H', TFun(SA, SA, SA))
    fS, gS, PS, aS = Var('f', TFun(SA, SA)), Var('g', TFun(SA, SA, SA)), Var('P', TFun(SA, BoolType)), Var('a', SA)
    ho = [False]

    def term(d, bound):
        opts = ['x', 'y', 'a', 'f', 'g'] + (['b'] * 2 if bound else []) + ['F', 'H']
        k = rnd.choice(opts) if d > 0 else rnd.choice(['x', 'y', 'a'] + (['b'] if bound else []))
        if k == 'x':
            return x
        if k == 'y':
            return y
        if k == 'a':
            return aS
        if k == 'b':
            return rnd.choice(bound)
        if k == 'f':
            return fS(term(d - 1, bound))
        if k == 'g':
            return gS(term(d - 1, bound), term(d - 1, bound))
        ho[0] = True
        if k == 'F':
            return sf(rnd.choice(bound) if bound and rnd.random() < 0.7 else term(d - 1, bound))
        return sh(rnd.choice(bound) if bound and rnd.random() < 0.7 else term(d - 1, bound), rnd.choice(bound) if bound and rnd.random() < 0.7 else term(d - 1, bound))

    def prop(d, bound):
        k = rnd.choice(['eq', 'P', 'Q', 'all'] if len(bound) < 2 else ['eq', 'P', 'Q'])
        if k == 'eq':
            return Eq(term(d, bound), term(d, bound))
        if k == 'P':
            return PS(term(d, bound))
        if k == 'Q':
            ho[0] = True
            return sP(rnd.choice(bound) if bound and rnd.random() < 0.7 else term(d, bound))
        v = Var('u%d' % len(bound), SA)
        return Forall(v, prop(d, bound + [v]))
    shape = rnd.choice(['prop', 'prop', 'term', 'lam', 'lam2'])
    if shape == 'prop':
        p_ = prop(2, [])
    elif shape == 'term':
        p_ = term(2, [])
    elif shape == 'lam':
        v = Var('u0', SA)
        p_ = Lambda(v, term(2, [v]))
    else:
        v, w = Var('u0', SA), Var('u1', SA)
        p_ = Lambda(v, Lambda(w, term(2, [v, w])))
    return ('ho' if ho[0] else 'fo'), p_


def run_generated(u, out):
    """Generated patterns against (a) their own instances over the pools and (b) instances of other generated patterns."""
    from kernel.term import Inst
    from kernel.type import TyInst
    _, tier, seed, lo, n = u
    F = family()
    pools, A = F['pools'], F['A']
    rnd = random.Random('c09g-%s-%s' % (seed, lo))
    prev_targets = []
    for k in range(n):
        kind, pat = gen_pattern(rnd)
        names = sorted({sv.name for sv in pat.get_svars()})
        targets = []
        for _ in range(3):
            choice = {nm: rnd.choice(pools[nm]) for nm in names}
            try:
                inst = Inst(**choice)
                t = pat.subst_type(TyInst(a=A)).subst(inst).beta_norm()
                targets.append((t, True))
            except Exception:
                continue
        targets += [(t, False) for t in prev_targets[-2:]]
        for t, is_inst in targets:
            for sd in (None, {}, {'x': Var_u(A)} if 'x' in names else {}):
                out['evals'] += 1
                if os.environ.get('VERIF_TWIN'):
                    if len(out['cex']) < 2:
                        out['cex'].append({'kind': 'twin', 'part': 'gen'})
                    continue
                kk, detail, matched = check_match(pat, kind, t, sd, is_inst)
                if matched or is_inst:
                    out['keys'].add('g|%r|%r|%s' % (pat, t, sd))
                if kk:
                    out['cex'].append({'kind': kk, 'part': 'gen', 'seed': seed, 'lo': lo, 'k': k, 'detail': detail, 'sig': '%s|g|%r|%r' % (kk, pat, t)})
        prev_targets += [t for t, _ in targets[:1]]
        if len(out['cex']) >= 12:
            break
    out['samples'].append({'generated_pattern': str(pat)})


def Var_u(A):
    from kernel.term import Var
    return Var('u', A)


def run_lists(u, out):
    """first_order_match_list on pairs of (pattern, instance)."""
    from logic import matcher
    from logic.matcher import MatchException
    _, tier, seed, lo, n = u
    F = family()
    rnd = random.Random('c09l-%s-%s' % (seed, lo))
    for k in range(n):
        pis = [rnd.randrange(len(F['pats'])) for _ in range(2)]
        if any(not F['instances'].get(pi) for pi in pis):
            continue
        tis = [rnd.choice(F['instances'][pi]) for pi in pis]
        pats = [F['pats'][pi][1] for pi in pis]
        ts = [F['targets'][ti] for ti in tis]
        out['evals'] += 1
        if os.environ.get('VERIF_TWIN'):
            continue
        seed_d = rnd.choice(F['seeds'] + [None, None, {}])
        sd = mk_seed(seed_d)
        snap = snapshot(sd)
        try:
            inst = matcher.first_order_match_list(pats, ts, sd) if sd is not None else matcher.first_order_match_list(pats, ts)
        except MatchException:
            if snapshot(sd) != snap:
                out['cex'].append({'kind': 'match-seed-mutated', 'part': 'list', 'seed': seed, 'lo': lo, 'k': k, 'detail': 'failed first_order_match_list(%s, %s) modified the caller\'s instantiation %s' % (pats, ts, seed_d)})
            continue
        except Exception as e:
            out['cex'].append({'kind': 'matchlist-exception', 'part': 'list', 'seed': seed, 'lo': lo, 'k': k, 'detail': 'first_order_match_list(%s, %s) raised %r' % (pats, ts, e)})
            continue
        out['keys'].add('l|%s|%s|%s' % (pis, tis, seed_d))
        if snapshot(sd) != snap:
            out['cex'].append({'kind': 'match-seed-mutated', 'part': 'list', 'seed': seed, 'lo': lo, 'k': k, 'detail': 'first_order_match_list(%s, %s) modified the caller\'s instantiation %s' % (pats, ts, seed_d)})
            continue
        if sd is not None:
            lost = [kk for kk, vv in sd.items() if kk not in inst or inst[kk] != vv] + [kk for kk, vv in sd.tyinst.items() if kk not in inst.tyinst or inst.tyinst[kk] != vv]
            if lost:
                out['cex'].append({'kind': 'match-seed-altered', 'part': 'list', 'seed': seed, 'lo': lo, 'k': k,
                                   'detail': 'first_order_match_list(%s, %s) with seed %s returns %s: seed entries %s lost or changed' % ([str(x) for x in pats], [str(x) for x in ts], seed_d, inst, lost)})
                continue
        for p, t in zip(pats, ts):
            try:
                res = p.subst_norm(inst)
                ok = benf(export(res)) == benf(export(t))
            except Exception as e:
                ok = False
                res = repr(e)
            if not ok:
                out['cex'].append({'kind': 'matchlist-wrong', 'part': 'list', 'seed': seed, 'lo': lo, 'k': k,
                                   'detail': 'first_order_match_list(%s, %s) = %s but %s instantiates to %s, not %s' % ([str(x) for x in pats], [str(x) for x in ts], inst, p, res, t)})
                break
    out['samples'].append({'pattern_list': [str(p) for p in pats]})


def units(tier, seed):
    F = family()
    us = [('pairs', tier, seed, pi) for pi in range(len(F['pats']))]
    ng = 300 if tier == 'quick' else 20000
    for lo in range(0, ng, 30):
        us.append(('gen', tier, seed, lo, 30))
    n = 200 if tier == 'quick' else 40000
    for lo in range(0, n, 50):
        us.append(('lists', tier, seed, lo, 50))
    random.Random(seed).shuffle(us)
    return us


def run_unit(u):
    out = {'evals': 0, 'keys': set(), 'cex': [], 'samples': [], 'inconclusive': 0, 'stats': {}}
    if u[0] == 'pairs':
        run_pairs(u, out)
    elif u[0] == 'gen':
        run_generated(u, out)
    else:
        run_lists(u, out)
    out['keys'] = list(out['keys'])
    return out


def replay(c):
    if c['kind'] == 'twin':
        return True, 'twin'
    if c['part'] == 'gen':
        out = {'evals': 0, 'keys': set(), 'cex': [], 'samples': [], 'inconclusive': 0, 'stats': {}}
        run_generated(('gen', 'quick', c['seed'], c['lo'], c['k'] + 1), out)
        m = [x for x in out['cex'] if x['k'] == c['k'] and x['kind'] == c['kind']]
        return bool(m), m[0]['detail'] if m else 'not reproduced'
    if c['part'] == 'list':
        out = {'evals': 0, 'keys': set(), 'cex': [], 'samples': [], 'inconclusive': 0, 'stats': {}}
        run_lists(('lists', 'quick', c['seed'], c['lo'], c['k'] + 1), out)
        m = [x for x in out['cex'] if x['k'] == c['k'] and x['kind'] == c['kind']]
        return bool(m), m[0]['detail'] if m else 'not reproduced'
    F = family()
    kind, pat = F['pats'][c['pat']]
    k, detail, _ = check_match(pat, kind, F['targets'][c['target']], F['seeds'][c['seed']], c['target'] in set(F['instances'].get(c['pat'], [])))
    return k == c['kind'], detail
