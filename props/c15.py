"""C15 -- SAT solver verdicts/certificates and Tseitin encoding.

Part A (symx): sat.solve_cnf on every clause *shape*; every polarity is a SymBool, so one path stands for
all polarity assignments that drive the solver the same way.  Per path, z3 proves
  satisfiable   => returned assignment satisfies every clause (for all polarities on the path)
  unsatisfiable => CNF(x, polarities) has no model (z3 is the SAT oracle) and the resolution trace replays
                   with an independent sound resolution to the empty clause.
Part B: tseitin.encode: theorem accepted by check_proof, valid (holsmt), CNF equisatisfiable (z3, closed formula).
"""
import itertools
import os
import random

import z3

from vlib import symx
from vlib.symx import Engine, SymBool, NonTermination, call_with_budget

PID = 'C15'
LEVEL = 'other'
LEVEL_TEXT = ('Bounded symbolic execution of the real sat.solve_cnf with every literal polarity a solver variable: per explored path z3 proves the '
              'returned assignment satisfies the CNF / the CNF is unsatisfiable for all polarity values on that path, and the resolution trace replays soundly; '
              'exhaustive over the stated clause shapes. Tseitin: per formula, z3 decides equisatisfiability and holsmt validity of the encoded theorem. '
              'Not a proof: shapes beyond the bound are outside the claim.')
LEVEL_NOTE = 'trusts z3, CPython, the proxy engine (self-validated per path by a native concolic run), the independent resolution replayer; hash seed pinned'
TECHNIQUE = 'bounded symbolic execution of the real solver (symbolic literal polarities) + z3 as SAT/validity oracle'
FUNCTIONS = ['prover.sat:solve_cnf (unit_propagate, analyze_conflict, backtrack)', 'prover.sat:resolution', 'prover.sat:is_solution',
             'prover.tseitin:encode', 'prover.tseitin:convert_cnf', 'kernel.theory:check_proof']
ASSUMPTIONS = [
    'clause shapes (which variable at which literal position) are enumerated up to the stated bound; literal order inside a clause is taken non-decreasing in the variable index',
    'PYTHONHASHSEED is pinned (solve_cnf iterates a set of names); thorough repeats under further hash seeds',
    'non-termination = no result within 1 s per call (typical call < 5 ms), replayed natively with 10 s',
    'Tseitin: formulas over atoms a,b,c with connectives ~ & | --> <-->; depth bound as stated',
    'trusted: z3, CPython, the 25-line independent resolution replayer in this file',
]
RULE = ('one evaluation = one explored path of solve_cnf (a set of polarity assignments) or one Tseitin formula; '
        'distinct = distinct (shape, verdict, decision-trace) triples; non-trivial = the CNF has at least one clause')
EXPLANATION = ('solve_cnf is executed on proxies: each literal polarity is a z3 Bool; path conditions and the final '
               'assertion are discharged by z3 for every polarity assignment on the path; exhaustive over the stated shapes')
BUDGET_S = {'quick': 240, 'thorough': 900}
NAMES = ['a', 'b', 'c', 'd']


def bounds(tier):
    if tier == 'quick':
        return {'cnf': '3 variables, <=3 clauses, clause = set of <=3 variables or a two-literal clause on one variable (11 clause shapes, 1464 CNF shapes)',
                'polarities': 'symbolic (all)', 'tseitin': 'depth<=1 exhaustive (42) + 358 seeded formulas of depth 2 over a b c; the same with 160 formulas over atoms named x2 a x1 (like the variables the encoding introduces)'}
    return {'cnf': ['3 variables, <=3 clauses, clause = multiset of <=3 variables (20 clause shapes, 8421 CNF shapes)',
                    '3 variables, <=4 clauses over the 11 quick clause shapes (16105 CNF shapes)',
                    '4 variables, <=3 clauses, clause = multiset of <=2 variables'],
            'polarities': 'symbolic (all)', 'tseitin': 'depth<=2 exhaustive (7140) + 600 seeded formulas of depth 3 over a b c; 1500 formulas of depth <= 2 over atoms named x2 a x1'}


def setup(tier, seed):
    from logic import basic
    basic.load_theory('sat')


def clause_shapes(nv, maxl, dup=True):
    """dup=True: multisets of variables (repeated and complementary occurrences possible);
    dup='pairs': sets of variables plus the two-literal clauses on one variable; dup=False: sets only."""
    out = []
    for k in range(0, maxl + 1):
        if dup is True:
            out.extend(itertools.combinations_with_replacement(range(nv), k))
        else:
            out.extend(itertools.combinations(range(nv), k))
    if dup == 'pairs':
        out.extend((v, v) for v in range(nv))
    return out


FAMILIES = {
    # name: (variables, max literals, dup mode)
    'q3': (3, 3, 'pairs'),
    'full3': (3, 3, True),
    'v4': (4, 2, True),
}


def units(tier, seed):
    us = []

    def fam(name, maxc, split):
        nv, maxl, dup = FAMILIES[name]
        ncl = len(clause_shapes(nv, maxl, dup))
        for n in range(0, maxc + 1):
            k = min(split, n) if n >= 2 else 0
            for prefix in itertools.product(range(ncl), repeat=k):
                us.append(('cnf', name, n, prefix))
    if tier == 'quick':
        fam('q3', 3, 1)
    else:
        fam('full3', 3, 1)
        fam('q3', 4, 2)
        fam('v4', 3, 1)
    # Tseitin
    nform = 400 if tier == 'quick' else 7140
    step = 25
    for i in range(0, nform, step):
        us.append(('tseitin', tier, seed, i, min(nform, i + step)))
    if tier == 'thorough':
        for i in range(0, 600, 50):
            us.append(('tseitin3', tier, seed, i, i + 50))
    nx = 160 if tier == 'quick' else 1500
    for i in range(0, nx, 20):
        us.append(('tseitinx', tier, seed, i, min(nx, i + 20)))
    random.Random(seed).shuffle(us)
    return us


# ------------------------------------------------------------------ part A

def sound_resolve(c1, c2):
    """Independent resolution: find a complementary pair, remove exactly those two literals."""
    for (n1, p1) in c1:
        for (n2, p2) in c2:
            if n1 == n2 and bool(p1 != p2):
                r = [l for l in c1 if not (l[0] == n1 and bool(l[1] == p1))] + \
                    [l for l in c2 if not (l[0] == n2 and bool(l[1] == p2))]
                return r
    return None


def replay_trace(cnf, proofs):
    """Returns None if the trace is a sound refutation, else a reason string."""
    ext = [list(c) for c in cnf]
    n0 = len(ext)
    if not proofs:
        return 'empty trace'
    for new_id in sorted(proofs):
        if new_id != len(ext):
            return 'learned clause ids not consecutive'
        pf = proofs[new_id]
        if not pf or any((not isinstance(i, int)) or i < 0 or i >= len(ext) for i in pf):
            return 'trace names a clause that does not exist yet'
        cur = list(ext[pf[0]])
        for cid in pf[1:]:
            cur = sound_resolve(cur, ext[cid])
            if cur is None:
                return 'no complementary pair for a resolution step'
        ext.append(cur)
    if len(ext[-1]) != 0:
        return 'last learned clause is not empty under sound resolution'
    return None


def zpol(p):
    return p.e if isinstance(p, SymBool) else z3.BoolVal(bool(p))


def run_cnf_shape(shape, nv, out, twin=False):
    from prover import sat
    names = NAMES[:nv]
    eng = Engine()
    pol = [[z3.Bool('p_%d_%d' % (i, j)) for j in range(len(c))] for i, c in enumerate(shape)]
    xs = {n: z3.Bool('x_' + n) for n in names}
    F = z3.And([z3.Or([xs[names[v]] == pol[i][j] for j, v in enumerate(c)]) for i, c in enumerate(shape)]) if shape else z3.BoolVal(True)

    def concrete_cnf(model):
        return [[(names[v], z3.is_true(model.eval(pol[i][j], model_completion=True))) for j, v in enumerate(c)] for i, c in enumerate(shape)]

    def run(eng):
        if len(out['cex']) >= 6:
            return   # enough counterexamples from this unit; do not spend the budget on more
        cnf = [[(names[v], SymBool(pol[i][j])) for j, v in enumerate(c)] for i, c in enumerate(shape)]
        try:
            res, cert = call_with_budget(sat.solve_cnf, 0.5, cnf)
        except NonTermination:
            # the symbolic run exceeded its time slice (possibly only because the machine is busy): a candidate.  It is
            # reported only if the concrete instance does not return natively within a generous limit either.
            if eng.check() == 'sat':
                ccnf = concrete_cnf(eng.model())
                with symx.Native():
                    try:
                        call_with_budget(sat.solve_cnf, 10.0, ccnf)
                        out['stats_slow_paths'] = out.get('stats_slow_paths', 0) + 1
                    except NonTermination:
                        out['cex'].append({'kind': 'nontermination', 'cnf': ccnf})
                    except Exception:
                        pass
            return
        except symx.Infeasible:
            raise
        except Exception as e:
            if eng.check() == 'sat':
                out['cex'].append({'kind': 'exception', 'cnf': concrete_cnf(eng.model()), 'exc': type(e).__name__})
            return
        out['evals'] += 1
        out['keys'].add('%s|%s|%s' % (shape, res, hash(tuple(eng.trace)) & 0xffffffff))
        if twin:
            out['cex'].append({'kind': 'twin', 'cnf': concrete_cnf(eng.model()) if eng.check() == 'sat' else []})
            return
        if res == 'satisfiable':
            ok = z3.And([z3.Or([zpol(cert[names[v]]) == pol[i][j] for j, v in enumerate(c) if names[v] in cert])
                         for i, c in enumerate(shape)]) if shape else z3.BoolVal(True)
            r, m = eng.prove(ok)
            if r == 'sat':
                out['cex'].append({'kind': 'bad-assignment', 'cnf': concrete_cnf(m)})
            elif r != 'unsat':
                out['inconclusive'] += 1
        elif res == 'unsatisfiable':
            r = eng.check(F)
            if r == 'sat':
                out['cex'].append({'kind': 'wrong-unsat', 'cnf': concrete_cnf(eng.model())})
                return
            elif r != 'unsat':
                out['inconclusive'] += 1
            why = replay_trace(cnf, cert)
            if why is not None and eng.check() == 'sat':
                out['cex'].append({'kind': 'bad-trace', 'cnf': concrete_cnf(eng.model()), 'why': why})
        else:
            if eng.check() == 'sat':
                out['cex'].append({'kind': 'bad-verdict', 'cnf': concrete_cnf(eng.model()), 'verdict': str(res)})
        # concolic self-validation on one model of the path
        if eng.check() == 'sat':
            m = eng.model()
            ccnf = concrete_cnf(m)
            with symx.Native():
                try:
                    cres, _ = call_with_budget(sat.solve_cnf, 5.0, ccnf)
                except Exception as e:  # noqa
                    cres = 'exc:' + type(e).__name__
            eng.stats.validated += 1
            if cres != res:
                eng.stats.validation_errors.append({'cnf': ccnf, 'symbolic': res, 'native': cres})
    done = eng.explore(run, max_paths=20000)
    if not done:
        eng.stats.__dict__['budget_cut'] = eng.stats.__dict__.get('budget_cut', 0) + 1
    return eng.stats


def run_unit(u):
    out = {'evals': 0, 'keys': set(), 'cex': [], 'samples': [], 'inconclusive': 0, 'stats': {}}
    twin = bool(os.environ.get('VERIF_TWIN'))
    if u[0] == 'cnf':
        _, famname, n, prefix = u
        nv, maxl, dup = FAMILIES[famname]
        cl = clause_shapes(nv, maxl, dup)
        total = symx.Stats()
        fixed = [cl[i] for i in (prefix or ())]
        for rest in itertools.product(cl, repeat=n - len(fixed)):
            shape = tuple(fixed) + rest
            st = run_cnf_shape(shape, nv, out, twin)
            total.add(st)
        out['stats'] = total.as_dict()
        out['stats']['shapes'] = len(cl) ** (n - len(fixed))
        out['stats']['slow_symbolic_paths_confirmed_terminating'] = out.pop('stats_slow_paths', 0)
        if out['evals']:
            out['samples'].append({'cnf_shape': [[NAMES[v] for v in c] for c in shape], 'polarities': 'symbolic', 'paths_in_unit': out['evals']})
    else:
        run_tseitin(u, out, twin)
    out['keys'] = list(out['keys'])
    return out


# ------------------------------------------------------------------ part B

def formulas(depth, atoms):
    from kernel.term import Not, And, Or, Implies, Eq
    cur = list(atoms)
    for _ in range(depth):
        nxt = list(cur)
        nxt += [Not(t) for t in cur]
        for op in (And, Or, Implies, Eq):
            nxt += [op(s, t) for s in cur for t in cur]
        cur = nxt
    return cur


_FORMS = {}
XNAMES = 'x2 a x1'


def get_forms(depth, names='abc'):
    if names != 'abc':
        # the same family over atoms whose names look like the variables the encoding introduces (x1, x2, ...)
        key = (depth, names)
        if key not in _FORMS:
            from kernel.term import Var
            from kernel.type import BoolType
            _FORMS[key] = formulas(depth, [Var(n, BoolType) for n in names.split()])
        return _FORMS[key]
    if depth not in _FORMS:
        from kernel.term import Var
        from kernel.type import BoolType
        atoms = [Var(n, BoolType) for n in 'abc']
        if depth <= 2:
            _FORMS[depth] = formulas(depth, atoms)
        else:
            base = formulas(2, atoms)
            rnd = random.Random(12345)
            from kernel.term import Not, And, Or, Implies, Eq
            fs = []
            for _ in range(600):
                op = rnd.choice([And, Or, Implies, Eq])
                fs.append(op(rnd.choice(base), rnd.choice(base)))
            _FORMS[depth] = fs
    return _FORMS[depth]


def prop_to_z3(t, env):
    if t.is_not():
        return z3.Not(prop_to_z3(t.arg, env))
    if t.is_conj():
        return z3.And(prop_to_z3(t.arg1, env), prop_to_z3(t.arg, env))
    if t.is_disj():
        return z3.Or(prop_to_z3(t.arg1, env), prop_to_z3(t.arg, env))
    if t.is_implies():
        return z3.Implies(prop_to_z3(t.arg1, env), prop_to_z3(t.arg, env))
    if t.is_equals():
        return prop_to_z3(t.arg1, env) == prop_to_z3(t.arg, env)
    if t.is_var():
        return env.setdefault(t.name, z3.Bool('v_' + t.name))
    if t.is_const() and t.name in ('true', 'false'):
        return z3.BoolVal(t.name == 'true')
    raise ValueError(str(t))


def check_tseitin(t):
    """Returns None if fine, else a dict describing the violation."""
    from prover import tseitin
    from kernel import theory
    from kernel.report import ProofReport
    from vlib.holsmt import Oracle
    try:
        pt = tseitin.encode(t)
    except Exception as e:
        return {'kind': 'tseitin-exception', 'exc': type(e).__name__ + ': ' + str(e)[:100]}
    try:
        rpt = ProofReport()
        th = theory.check_proof(pt.export(), rpt, check_level=1)
        if th != pt.th or rpt.gaps:
            return {'kind': 'tseitin-proof-mismatch'}
    except Exception as e:
        return {'kind': 'tseitin-proof-rejected', 'exc': type(e).__name__ + ': ' + str(e)[:100]}
    # the formula itself must be among the hypotheses and the only non-definitional one
    others = [h for h in pt.hyps if h != t]
    for h in others:
        if not (h.is_equals() and h.lhs.is_var() and h.lhs.name.startswith('x')):
            return {'kind': 'tseitin-extra-hypothesis', 'hyp': str(h)}
    try:
        cnf = tseitin.convert_cnf(pt.prop)
    except Exception as e:
        return {'kind': 'tseitin-convert-exception', 'exc': type(e).__name__}
    env = {}
    f = prop_to_z3(t, env)
    atoms = list(env.values())
    cenv = {}
    cz = z3.And([z3.Or([(cenv.setdefault(n, z3.Bool('c_' + n)) if p else z3.Not(cenv.setdefault(n, z3.Bool('c_' + n)))) for n, p in cl]) for cl in cnf])
    # the CNF returned must be the theorem's conclusion
    s = z3.Solver()
    s.set('timeout', 5000)
    lhs = z3.Exists(atoms, f) if atoms else f
    rhs = z3.Exists(list(cenv.values()), cz) if cenv else cz
    s.add(lhs != rhs)
    r = str(s.check())
    if r == 'sat':
        return {'kind': 'tseitin-not-equisatisfiable'}
    if r != 'unsat':
        return {'kind': '_inconclusive'}
    v = ORACLE.valid(pt.hyps, pt.prop)
    if v.status == 'invalid':
        return {'kind': 'tseitin-theorem-invalid'}
    if v.status != 'valid':
        return {'kind': '_inconclusive'}
    return None


ORACLE = None


def run_tseitin(u, out, twin):
    global ORACLE
    from vlib.holsmt import Oracle
    if ORACLE is None:
        ORACLE = Oracle()
    kind, tier, seed, lo, hi = u
    if kind == 'tseitin3':
        forms = get_forms(3)
        idx = range(lo, min(hi, len(forms)))
    elif kind == 'tseitinx':
        forms = get_forms(2, XNAMES)
        small = list(range(42))
        n = 160 if tier == 'quick' else 1500
        idx = (small + random.Random('x%s' % seed).sample(range(42, len(forms)), n - 42))[lo:hi]
    else:
        forms = get_forms(2)
        if tier == 'quick':
            # depth <= 1 exhaustively (first 42 after sorting by size), then a seeded sample of depth 2
            small = list(range(42))
            rnd = random.Random(seed)
            sample = small + rnd.sample(range(42, len(forms)), 400 - 42)
            idx = sample[lo:hi]
        else:
            idx = range(lo, min(hi, len(forms)))
    for i in idx:
        t = forms[i]
        out['evals'] += 1
        out['keys'].add('ts|' + str(t))
        if twin:
            out['cex'].append({'kind': 'twin', 'formula': str(t)})
            continue
        bad = check_tseitin(t)
        if bad is None:
            continue
        if bad['kind'] == '_inconclusive':
            out['inconclusive'] += 1
            continue
        bad['formula'] = str(t)
        bad['depth'] = 3 if kind == 'tseitin3' else 2
        if kind == 'tseitinx':
            bad['names'] = XNAMES
        bad['index'] = i
        out['cex'].append(bad)
    out['samples'].append({'tseitin_formula': str(forms[idx[0]])} if len(idx) else {})
    out['stats'] = {'oracle_calls': ORACLE.calls, 'oracle_queries': ORACLE.queries, 'oracle_s': round(ORACLE.seconds, 3)}
    ORACLE.calls = ORACLE.queries = 0
    ORACLE.seconds = 0.0


# ------------------------------------------------------------------ replay (native, no proxies)

def brute_sat(cnf):
    names = sorted({n for c in cnf for n, _ in c})
    for vals in itertools.product([False, True], repeat=len(names)):
        a = dict(zip(names, vals))
        if all(any(a[n] == p for n, p in c) for c in cnf):
            return True
    return False


def replay(c):
    from prover import sat
    kind = c['kind']
    if kind == 'twin':
        return True, 'twin'
    if kind.startswith('tseitin'):
        global ORACLE
        from vlib.holsmt import Oracle
        if ORACLE is None:
            ORACLE = Oracle()
        t = get_forms(c['depth'], c.get('names', 'abc'))[c['index']]
        bad = check_tseitin(t)
        return (bad is not None and bad['kind'] == kind), str(bad)
    cnf = [[(n, bool(p)) for n, p in cl] for cl in c['cnf']]
    try:
        res, cert = call_with_budget(sat.solve_cnf, 10.0, [list(cl) for cl in cnf])
    except NonTermination:
        return kind == 'nontermination', 'solve_cnf(%r) did not return within 10 s' % (cnf,)
    except Exception as e:
        return kind == 'exception', 'solve_cnf(%r) raised %r' % (cnf, e)
    truth = brute_sat(cnf)
    if res == 'satisfiable':
        good = all(any(n in cert and cert[n] == p for n, p in cl) for cl in cnf)
        if not good:
            return kind == 'bad-assignment', 'solve_cnf(%r) = satisfiable with %r which does not satisfy every clause' % (cnf, cert)
        return False, 'assignment fine'
    if res == 'unsatisfiable':
        if truth:
            return kind == 'wrong-unsat', 'solve_cnf(%r) = unsatisfiable but brute force finds a model' % (cnf,)
        why = replay_trace(cnf, cert)
        if why:
            return kind == 'bad-trace', 'solve_cnf(%r): resolution trace %r invalid: %s' % (cnf, cert, why)
        return False, 'fine'
    return kind == 'bad-verdict', 'verdict %r' % (res,)
