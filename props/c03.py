"""C03 -- term equality is alpha-equivalence; substitution is capture-free.

Part 1 (symx, histories): object identity is an environment function.  kernel.term.id is bound (module global,
   harness process only) to a stub that returns a fresh *symbolic* integer per object, constrained only by CPython's
   contract: distinct from the identities of objects alive at that moment (liveness observed through weak
   references, i.e. CPython's own reference counting).  Terms are built by scripts in which any node may be
   re-wrapped (`Term(t)`, the original dropped -- what `Term("text")` does with the parsed term); then ==, hash,
   subst, abstract_over, subst_bound, incr_boundvars, beta_norm run on the real code and every result is compared
   with an independent reference implementation on exported tuple forms.  z3 decides, over all admissible identity
   assignments = all allocation / garbage-collection histories, whether a result can differ.
Part 2 (enumeration): ==, hash, fast_compare laws on all pairs/triples of a typed term family; types likewise.
Part 3 (enumeration + SMT oracle): subst / subst_type / abstract_over / subst_bound / beta_norm results are
   well-typed with the right type, equal up to alpha to the reference implementation, and denotation-preserving in
   every model (holsmt): beta_norm(t) = t, (%x. t) x = t, and subst against a lambda-bound simultaneous instance.
"""
import itertools
import os
import random
import weakref

import z3

from vlib import symx
from vlib.symx import Engine, SymInt, SymBool

PID = 'C03'
LEVEL = 'other'
LEVEL_TEXT = ('Object identities are solver variables constrained only by CPython\'s contract, so one symbolic run of the real Term code covers all '
              'allocation/GC histories of the scripted term constructions; results of ==, hash, substitution and de-Bruijn operations are compared with an '
              'independent reference implementation and, for denotation, decided by an SMT oracle over all models. Term shapes are enumerated up to a stated bound.')
LEVEL_NOTE = ('trusts z3, the proxy engine, the reference implementation on tuple forms (this file), holsmt; id() is stubbed per its documented contract; '
              'deeper terms and other construction scripts are outside the claim')
TECHNIQUE = 'symbolic object identities (all GC/allocation histories) through the real Term code + reference implementation + SMT denotation oracle'
FUNCTIONS = ['kernel.term:Term.__init__/__eq__/__hash__/__copy__', 'kernel.term:Term.subst/subst_type/subst_type_inplace/abstract_over/subst_bound/incr_boundvars/beta_norm/beta_conv',
             'kernel.term:Lambda', 'kernel.type:Type.__eq__/__hash__/subst', 'kernel.term_ord:fast_compare/fast_compare_typ']
ASSUMPTIONS = [
    'kernel.term.id is a stub: fresh symbolic integer per call, distinct from the identities handed to objects that are still alive (weak references observe liveness)',
    'identity proxies hash to a constant so that dict/set lookups compare them with == (a branch) instead of concretising',
    'replay of identity counterexamples re-runs the real code with a concrete id() following the model (still satisfying the contract); the simplest scenario is additionally reproduced against the real CPython allocator',
    'term family: types a, a=>a, a=>bool, bool; leaves x y (Var and SVar), f, P, c, Bound; depth and counts under bounds',
    'shared sub-objects: 64 hand-built abstractions in which one Python object with a loose bound variable occurs at 2-3 binder depths',
]
RULE = ('one evaluation = one explored path (identity-equality pattern) of a scripted construction+operation, or one term pair/triple/instantiation in parts 2-3; '
        'distinct = distinct (script, operation, decision trace) or distinct inputs; non-trivial = at least one re-wrapped node or a binder')
EXPLANATION = ('identities are z3 integers; Term.__eq__ and the _id-based caches/short-cuts branch on them; per path the real result is compared with the reference; '
               'denotation of substitution/beta results is decided valid by z3 (uninterpreted sorts + arrays, finite-model fallback)')
BUDGET_S = {'quick': 240, 'thorough': 900}


def bounds(tier):
    return {'identity_scripts': 'terms of depth <= 2 (quick) / 3 (thorough, sampled) with every node optionally re-wrapped; 7 operations',
            'law_family_depth': 2, 'law_pairs': 'all pairs; triples sampled %d' % (3000 if tier == 'quick' else 60000),
            'subst_family': 'terms depth <= 2 (3 sampled in thorough) x 14 instantiations'}


# ------------------------------------------------------------------ tuple export + reference implementation

def tyx(T):
    if T.is_stvar():
        return ('?', T.name)
    if T.is_tvar():
        return ("'", T.name)
    return (T.name,) + tuple(tyx(a) for a in T.args)


def export(t):
    if t.is_var():
        return ('V', t.name, tyx(t.T))
    if t.is_svar():
        return ('S', t.name, tyx(t.T))
    if t.is_const():
        return ('C', t.name, tyx(t.T))
    if t.is_bound():
        return ('B', int(t.n))
    if t.is_abs():
        return ('A', tyx(t.var_T), export(t.body))
    return ('@', export(t.fun), export(t.arg))


def r_incr(t, inc, lev=0):
    k = t[0]
    if k == 'B':
        return ('B', t[1] + inc) if t[1] >= lev else t
    if k == 'A':
        return ('A', t[1], r_incr(t[2], inc, lev + 1))
    if k == '@':
        return ('@', r_incr(t[1], inc, lev), r_incr(t[2], inc, lev))
    return t


def r_subst_bound(body, s, n=0):
    """body[s/Bound n], outer bounds decremented."""
    k = body[0]
    if k == 'B':
        if body[1] == n:
            return r_incr(s, n)
        return ('B', body[1] - 1) if body[1] > n else body
    if k == 'A':
        return ('A', body[1], r_subst_bound(body[2], s, n + 1))
    if k == '@':
        return ('@', r_subst_bound(body[1], s, n), r_subst_bound(body[2], s, n))
    return body


def r_abstract(t, v, n=0):
    """Replace variable v (('V'|'S', name, T)) by Bound n. Name clash at another type is an error."""
    k = t[0]
    if k in ('V', 'S'):
        if k == v[0] and t[1] == v[1]:
            if t[2] != v[2]:
                raise ValueError('wrong type')
            return ('B', n)
        return t
    if k == 'A':
        return ('A', t[1], r_abstract(t[2], v, n + 1))
    if k == '@':
        return ('@', r_abstract(t[1], v, n), r_abstract(t[2], v, n))
    return t


def r_subst(t, sinst, vinst):
    k = t[0]
    if k == 'S' and t[1] in sinst:
        return sinst[t[1]]
    if k == 'V' and t[1] in vinst:
        return vinst[t[1]]
    if k == 'A':
        return ('A', t[1], r_subst(t[2], sinst, vinst))
    if k == '@':
        return ('@', r_subst(t[1], sinst, vinst), r_subst(t[2], sinst, vinst))
    return t


def r_beta_norm(t, fuel=200):
    k = t[0]
    if k == '@':
        f = r_beta_norm(t[1], fuel)
        a = r_beta_norm(t[2], fuel)
        if f[0] == 'A':
            if fuel <= 0:
                raise RecursionError
            return r_beta_norm(r_subst_bound(f[2], a), fuel - 1)
        return ('@', f, a)
    if k == 'A':
        return ('A', t[1], r_beta_norm(t[2], fuel))
    return t


def r_tysubst(T, ti):
    if T[0] == '?':
        return ti.get(T[1], T)
    if T[0] == "'":
        return T
    return (T[0],) + tuple(r_tysubst(a, ti) for a in T[1:])


def r_subst_type(t, ti):
    k = t[0]
    if k in ('V', 'S', 'C'):
        return (k, t[1], r_tysubst(t[2], ti))
    if k == 'A':
        return ('A', r_tysubst(t[1], ti), r_subst_type(t[2], ti))
    if k == '@':
        return ('@', r_subst_type(t[1], ti), r_subst_type(t[2], ti))
    return t


def ty_from(e):
    from kernel.type import TVar, STVar, TConst
    if e[0] == '?':
        return STVar(e[1])
    if e[0] == "'":
        return TVar(e[1])
    return TConst(e[0], *[ty_from(a) for a in e[1:]])


def from_tuple(e):
    from kernel.term import Var, SVar, Const, Bound, Comb, Abs
    k = e[0]
    if k == 'V':
        return Var(e[1], ty_from(e[2]))
    if k == 'S':
        return SVar(e[1], ty_from(e[2]))
    if k == 'C':
        return Const(e[1], ty_from(e[2]))
    if k == 'B':
        return Bound(e[1])
    if k == 'A':
        return Abs('v', ty_from(e[1]), from_tuple(e[2]))
    return Comb(from_tuple(e[1]), from_tuple(e[2]))


def schematic(e):
    """Rename the type variable 'a to the schematic ?'a throughout a tuple-form term."""
    def ty(T):
        if T[0] == "'" and T[1] == 'a':
            return ('?', 'a')
        if T[0] in ("'", '?'):
            return T
        return (T[0],) + tuple(ty(a) for a in T[1:])
    k = e[0]
    if k in ('V', 'S', 'C'):
        return (k, e[1], ty(e[2]))
    if k == 'A':
        return ('A', ty(e[1]), schematic(e[2]))
    if k == '@':
        return ('@', schematic(e[1]), schematic(e[2]))
    return e


# ------------------------------------------------------------------ term family

_F = {}


def fam():
    if _F:
        return _F
    from kernel.type import TVar, STVar, TFun, BoolType
    from kernel.term import Var, SVar, Const, Bound, Comb, Abs
    A = TVar('a')
    SA = STVar('a')
    _F.update(dict(A=A, SA=SA, AA=TFun(A, A), AB=TFun(A, BoolType), BT=BoolType))
    return _F


def gen_terms(depth, env=(), names=('x', 'y')):
    """dict type-key -> list of well-typed terms (may contain Bound i for i < len(env)). env: tuple of types."""
    from kernel.type import TFun
    from kernel.term import Var, SVar, Const, Bound, Comb, Abs
    f = fam()
    A, AA, AB, BT = f['A'], f['AA'], f['AB'], f['BT']
    base = {}

    def add(T, t):
        base.setdefault(repr(T), (T, []))[1].append(t)
    for nm in names:
        add(A, Var(nm, A))
    add(A, SVar('x', A))
    add(A, Const('c', A))
    add(AA, Var('f', AA))
    add(AB, Var('P', AB))
    add(AB, SVar('Q', AB))
    for i, T in enumerate(env):
        add(T, Bound(i))
    cur = base
    for _ in range(depth):
        nxt = {k: (T, list(ts)) for k, (T, ts) in cur.items()}

        def add2(T, t):
            nxt.setdefault(repr(T), (T, []))[1].append(t)
        for k, (T, ts) in cur.items():
            if T.is_fun():
                dom = repr(T.domain_type())
                if dom in cur:
                    for fn in ts:
                        for a in cur[dom][1]:
                            add2(T.range_type(), Comb(fn, a))
        cur = nxt
    return cur


def closed_family(depth):
    """Closed terms: depth-`depth` bodies under 0..1 binders."""
    from kernel.term import Abs
    f = fam()
    out = []
    top = gen_terms(depth)
    for k, (T, ts) in top.items():
        out.extend(ts)
    inner = gen_terms(max(depth - 1, 0), env=(f['A'],))
    for k, (T, ts) in inner.items():
        for b in ts:
            for nm in ('x', 'z'):
                out.append(Abs(nm, f['A'], b))
    # forms the kernel hashes / compares through special cases: conjunction and disjunction chains, let-chains (whose binders
    # carry suggested names that equality must ignore)
    from kernel.type import TFun
    from kernel.term import Const, Bound
    A, BT = f['A'], f['BT']
    conj, disj = Const('conj', TFun(BT, BT, BT)), Const('disj', TFun(BT, BT, BT))
    atoms = top[repr(BT)][1][:3]
    for a in atoms:
        for b in atoms[:2]:
            for c in atoms[:2]:
                out += [conj(a, conj(b, c)), disj(a, disj(b, c)), conj(a, disj(b, c)), conj(conj(a, b), c)]
    let = Const('Let', TFun(A, TFun(A, BT), BT))
    vals = top[repr(A)][1][:2]
    bodies1 = gen_terms(1, env=(A,))[repr(BT)][1]
    bodies1 = [b for b in bodies1 if b.is_comb() and b.arg == Bound(0)][:2] + bodies1[:1]
    bodies2 = gen_terms(1, env=(A, A))[repr(BT)][1]
    bodies2 = [b for b in bodies2 if b.is_comb() and b.arg in (Bound(0), Bound(1))][:3]
    for v in vals:
        for nm in ('x', 'z'):
            for b in bodies1:
                out.append(let(v, Abs(nm, A, b)))
            for nm2 in ('x', 'w'):
                for b2 in bodies2:
                    out.append(let(v, Abs(nm, A, let(vals[0], Abs(nm2, A, b2)))))
    return out


# ------------------------------------------------------------------ part 1: symbolic identities

class IdInt(SymInt):
    """Identity proxy: hashes to a constant so containers compare identities with == (a solver branch)."""
    __slots__ = ()

    def __hash__(self):
        return 0

    def __eq__(self, o):
        if isinstance(o, SymInt):
            return SymBool(self.e == o.e)
        if isinstance(o, int):
            return SymBool(self.e == o)
        return False

    def __ne__(self, o):
        r = self.__eq__(o)
        return True if r is False else SymBool(z3.Not(r.e))


class IdStub:
    def __init__(self, eng):
        self.eng = eng
        self.n = 0
        self.live = {}     # serial -> z3 expr of identities of live objects

    def __call__(self, obj):
        self.n += 1
        k = self.n
        v = self.eng._declare('id%d' % k, z3.Int, 0, 10 ** 6)
        for e in self.live.values():
            self.eng.solver.add(v != e)
        self.live[k] = v
        try:
            weakref.finalize(obj, self.live.pop, k, None)
        except TypeError:
            pass
        return IdInt(v)


class ConcreteIds:
    """Replay stub: identities from a recorded list (allocation order)."""

    def __init__(self, values):
        self.values = list(values)
        self.i = 0

    def __call__(self, obj):
        v = self.values[self.i] if self.i < len(self.values) else 10 ** 7 + self.i
        self.i += 1
        return v


# A construction script is a nested tuple:  ('leaf', kind, name) | ('comb', s1, s2) | ('abs', name, s) | ('wrap', s)
LEAVES = [('V', 'x'), ('V', 'y'), ('S', 'x'), ('C', 'c'), ('F', 'f'), ('P', 'P'), ('B', 0)]


def build(script):
    """Run a construction script with the real constructors (under whatever id stub is installed)."""
    from kernel.term import Term, Var, SVar, Const, Bound, Comb, Abs
    f = fam()
    k = script[0]
    if k == 'leaf':
        kind, nm = script[1], script[2]
        if kind == 'V':
            return Var(nm, f['A'])
        if kind == 'S':
            return SVar(nm, f['A'])
        if kind == 'C':
            return Const(nm, f['A'])
        if kind == 'F':
            return Var(nm, f['AA'])
        if kind == 'P':
            return Var(nm, f['AB'])
        return Bound(nm)
    if k == 'comb':
        return Comb(build(script[1]), build(script[2]))
    if k == 'abs':
        return Abs(script[1], f['A'], build(script[2]))
    if k == 'wrap':
        inner = build(script[1])
        w = Term(inner)     # copies inner.__dict__ (including _id); `inner` dies when this frame returns
        del inner
        return w
    raise ValueError(script)


def script_export(script):
    f = fam()
    k = script[0]
    if k == 'leaf':
        kind, nm = script[1], script[2]
        T = {'V': f['A'], 'S': f['A'], 'C': f['A'], 'F': f['AA'], 'P': f['AB']}.get(kind)
        if kind == 'B':
            return ('B', nm)
        return ({'V': 'V', 'S': 'S', 'C': 'C', 'F': 'V', 'P': 'V'}[kind], nm, tyx(T))
    if k == 'comb':
        return ('@', script_export(script[1]), script_export(script[2]))
    if k == 'abs':
        return ('A', tyx(f['A']), script_export(script[2]))
    return script_export(script[1])


def scripts_of(depth, wraps=True):
    """All construction scripts of application/abstraction depth <= depth (well-typedness not required for identity logic,
    but we keep applications type-correct: f t, P t)."""
    A_leaves = [('leaf', 'V', 'x'), ('leaf', 'V', 'y'), ('leaf', 'S', 'x'), ('leaf', 'C', 'c'), ('leaf', 'B', 0)]
    cur = list(A_leaves)       # scripts of type A
    for _ in range(depth):
        nxt = list(cur)
        for s in cur:
            nxt.append(('comb', ('leaf', 'F', 'f'), s))
        cur = nxt
    allA = cur
    out = []
    for s in allA:
        out.append(s)
        out.append(('comb', ('leaf', 'P', 'P'), s))
        out.append(('abs', 'x', ('comb', ('leaf', 'P', 'P'), s)))
    if not wraps:
        return out
    res = []
    for s in out:
        res.extend(wrap_variants(s))
    return res


def wrap_variants(s, limit=2):
    """s with up to `limit` nodes re-wrapped."""
    nodes = []

    def paths(t, p):
        nodes.append(p)
        if t[0] == 'comb':
            paths(t[1], p + (1,))
            paths(t[2], p + (2,))
        elif t[0] == 'abs':
            paths(t[2], p + (2,))
    paths(s, ())

    def wrap_at(t, p):
        if not p:
            return ('wrap', t)
        l = list(t)
        l[p[0]] = wrap_at(t[p[0]], p[1:])
        return tuple(l)
    out = [s]
    for k in range(1, limit + 1):
        for ps in itertools.combinations(nodes, k):
            t = s
            # wrap deeper nodes first so paths stay valid
            for p in sorted(ps, key=lambda q: -len(q)):
                t = wrap_at(t, p)
            out.append(t)
    return out


OPS = ['eq', 'subst', 'abstract', 'subst_bound', 'incr', 'beta', 'eq_copy']


def apply_op(op, t, script, other_script=None):
    """Run one operation of the real code on term t (built from script).  Returns (real result as tuple form or bool,
    reference result).  Raises are reported as the string 'EXC:<type>' on both sides."""
    from kernel.term import Var, SVar, Const, Inst, Comb, Abs, Bound, Term
    from copy import copy
    f = fam()
    te = script_export(script)

    def both(real_fn, ref_fn):
        try:
            r = real_fn()
        except symx.Infeasible:
            raise
        except Exception as e:
            r = 'EXC'
        try:
            x = ref_fn()
        except Exception:
            x = 'EXC'
        return r, x
    if op == 'eq':
        o = build(other_script)
        oe = script_export(other_script)
        r1, x1 = both(lambda: bool(t == o), lambda: te == oe)
        if r1 == x1 and r1 is True:
            # equal terms must have equal hashes
            r2, x2 = both(lambda: bool(hash(t) == hash(o)), lambda: True)
            return ('eq+hash', r2), ('eq+hash', x2)
        return r1, x1
    if op == 'eq_copy':
        return both(lambda: bool(copy(t) == t) and export(copy(t)), lambda: te)
    if op == 'subst':
        c = Comb(Var('f', f['AA']), Const('d', f['A']))
        ce = ('@', ('V', 'f', tyx(f['AA'])), ('C', 'd', tyx(f['A'])))
        return both(lambda: export(t.subst(Inst(x=c))), lambda: r_subst(te, {'x': ce}, {}))
    if op == 'abstract':
        v = Var('x', f['A'])
        return both(lambda: export(t.abstract_over(v)), lambda: r_abstract(te, ('V', 'x', tyx(f['A']))))
    if op == 'subst_bound':
        s = Comb(Var('f', f['AA']), Bound(0))
        se = ('@', ('V', 'f', tyx(f['AA'])), ('B', 0))
        return both(lambda: export(Abs('u', f['A'], t).subst_bound(s)), lambda: r_subst_bound(te, se))
    if op == 'incr':
        return both(lambda: export(t.incr_boundvars(2)), lambda: r_incr(te, 2))
    if op == 'beta':
        red = Comb(Abs('u', f['A'], t), Var('y', f['A']))
        return both(lambda: export(red.beta_norm()), lambda: r_beta_norm(('@', ('A', tyx(f['A']), te), ('V', 'y', tyx(f['A'])))))
    raise ValueError(op)


def run_identity_case(script, op, other, out, twin):
    from kernel import term as kterm
    eng = Engine()

    def run(eng):
        stub = IdStub(eng)
        kterm.id = stub
        try:
            t = build(script)
            real, ref = apply_op(op, t, script, other)
        finally:
            del kterm.id
        out['evals'] += 1
        out['keys'].add('%s|%s|%s|%x' % (script, op, other, hash(tuple(eng.trace)) & 0xffffffff))
        if twin or real != ref:
            if eng.check() != 'sat':
                raise symx.Infeasible()
            m = eng.model()
            ids = [m.eval(eng.vars['id%d' % k][0], model_completion=True).as_long() for k in range(1, stub.n + 1)]
            out['cex'].append({'kind': 'twin' if twin else 'identity-' + op, 'script': script, 'op': op, 'other': other, 'ids': ids,
                               'real': str(real)[:300], 'reference': str(ref)[:300]})
    done = eng.explore(run, max_paths=20000)
    if not done:
        eng.stats.__dict__['budget_cut'] = 1
    return eng.stats


def replay_identity(c):
    from kernel import term as kterm
    script = totuple(c['script'])
    other = totuple(c['other']) if c.get('other') is not None else None
    kterm.id = ConcreteIds(c['ids'])
    try:
        t = build(script)
        real, ref = apply_op(c['op'], t, script, other)
    finally:
        del kterm.id
    detail = 'construction %s, operation %s%s with object identities %s (distinct among live objects): real code gives %s, reference %s' % (
        script, c['op'], (' against ' + str(other)) if other else '', c['ids'], str(real)[:200], str(ref)[:200])
    extra = ''
    if real != ref and c['op'] == 'eq':
        extra = ' | real CPython allocator: ' + real_allocator_demo()
    return real != ref, detail + extra


def real_allocator_demo():
    """Term(t) == u for distinct variables after t's address is reused, against the real allocator (no stub)."""
    from kernel.term import Term, Var
    f = fam()
    for _ in range(2000):
        t = Var('x', f['A'])
        w = Term(t)
        old = id(t)
        del t
        keep = []
        for _ in range(64):
            n = Var('y', f['A'])
            if id(n) == old:
                return 'Term(Var x) == Var y evaluates to %s after the inner object was freed and its address reused' % (w == n)
            keep.append(n)
    return 'address reuse not observed in 2000 attempts'


def totuple(x):
    if isinstance(x, list):
        return tuple(totuple(y) for y in x)
    return x


# ------------------------------------------------------------------ part 2: laws

def run_laws(u, out, twin):
    from kernel import term_ord
    from copy import copy
    _, tier, seed, lo, hi = u
    fam_terms = closed_family(2)
    exps = [export(t) for t in fam_terms]
    n = len(fam_terms)
    rnd = random.Random('laws-%s-%s' % (seed, lo))
    for i in range(lo, min(hi, n)):
        a, ae = fam_terms[i], exps[i]
        for j in range(n):
            b, be = fam_terms[j], exps[j]
            out['evals'] += 1
            eq = (a == b)
            if twin and j == 0:
                out['cex'].append({'kind': 'twin', 'i': i, 'j': j})
            if eq != (ae == be):
                out['cex'].append({'kind': 'law-eq', 'i': i, 'j': j, 'detail': '%r == %r is %s, structural alpha-equality %s' % (a, b, eq, ae == be)})
                continue
            if eq and hash(a) != hash(b):
                out['cex'].append({'kind': 'law-hash', 'i': i, 'j': j, 'detail': 'equal terms %r %r with different hashes' % (a, b)})
            c1, c2 = term_ord.fast_compare(a, b), term_ord.fast_compare(b, a)
            if (c1 == 0) != eq or (c1 > 0) != (c2 < 0) or (c1 < 0) != (c2 > 0):
                out['cex'].append({'kind': 'law-order', 'i': i, 'j': j, 'detail': 'fast_compare(%r,%r)=%s, reversed %s, equal=%s' % (a, b, c1, c2, eq)})
        out['keys'].add('law|%d' % i)
    # transitivity on sampled triples
    for _ in range(60 if tier == 'quick' else 1200):
        i, j, k = rnd.randrange(n), rnd.randrange(n), rnd.randrange(n)
        a, b, c = fam_terms[i], fam_terms[j], fam_terms[k]
        out['evals'] += 1
        if term_ord.fast_compare(a, b) <= 0 and term_ord.fast_compare(b, c) <= 0 and term_ord.fast_compare(a, c) > 0:
            out['cex'].append({'kind': 'law-trans', 'i': i, 'j': j, 'k': k, 'detail': 'fast_compare not transitive on %r, %r, %r' % (a, b, c)})
    # types
    from kernel.type import TFun, TVar, STVar, BoolType, TConst
    tys = [TVar('a'), STVar('a'), TVar('b'), BoolType, TFun(TVar('a'), BoolType), TFun(STVar('a'), BoolType), TFun(TVar('a'), TVar('a'), BoolType),
           TConst('list', TVar('a')), TConst('list', STVar('a')), TFun(TFun(TVar('a'), TVar('a')), BoolType)]
    if lo == 0:
        for s in tys:
            for t2 in tys:
                out['evals'] += 1
                same = tyx(s) == tyx(t2)
                if (s == t2) != same or (same and hash(s) != hash(t2)) or ((term_ord.fast_compare_typ(s, t2) == 0) != same):
                    out['cex'].append({'kind': 'law-type', 'detail': 'types %r %r: == %s, structural %s' % (s, t2, s == t2, same)})
    out['samples'].append({'law_term': repr(fam_terms[lo]) if lo < n else None, 'family_size': n})


def replay_law(c):
    from kernel import term_ord
    fam_terms = closed_family(2)
    if c['kind'] == 'law-type':
        return True, c['detail']
    a, b = fam_terms[c['i']], fam_terms[c['j']]
    ae, be = export(a), export(b)
    eq = (a == b)
    if c['kind'] == 'law-eq':
        return eq != (ae == be), c['detail']
    if c['kind'] == 'law-hash':
        return eq and hash(a) != hash(b), c['detail']
    if c['kind'] == 'law-order':
        c1, c2 = term_ord.fast_compare(a, b), term_ord.fast_compare(b, a)
        return (c1 == 0) != eq or (c1 > 0) != (c2 < 0), c['detail']
    if c['kind'] == 'law-trans':
        cc = fam_terms[c['k']]
        return term_ord.fast_compare(a, b) <= 0 and term_ord.fast_compare(b, cc) <= 0 and term_ord.fast_compare(a, cc) > 0, c['detail']
    return False, 'unknown kind'


# ------------------------------------------------------------------ part 3: substitution / beta, denotation

ORACLE = None


def oracle():
    global ORACLE
    if ORACLE is None:
        from vlib.holsmt import Oracle
        ORACLE = Oracle(timeout_ms=1500)
    return ORACLE


def ind_type(t, env=()):
    from kernel.type import TFun
    if t.is_var() or t.is_svar() or t.is_const():
        return t.T
    if t.is_bound():
        return env[t.n] if t.n < len(env) else None
    if t.is_abs():
        b = ind_type(t.body, (t.var_T,) + env)
        return None if b is None else TFun(t.var_T, b)
    fT, aT = ind_type(t.fun, env), ind_type(t.arg, env)
    if fT is None or aT is None or not fT.is_fun() or fT.args[0] != aT:
        return None
    return fT.args[1]


def subst_cases():
    """(name, function(term) -> (real result term, reference tuple, semantic obligation (hyps, concl) or None))"""
    from kernel.term import Var, SVar, Const, Inst, Comb, Abs, Bound, Eq, Lambda
    from kernel.type import TyInst, TVar
    f = fam()
    A, AA, AB = f['A'], f['AA'], f['AB']
    x, y, c = Var('x', A), Var('y', A), Const('c', A)
    fx = Comb(Var('f', AA), x)
    fy = Comb(Var('f', AA), y)
    cases = []
    # term instantiation of the schematic variable ?x (and ?Q) by closed terms, including ones mentioning bound-variable names
    for nm, s in (('x:=y', y), ('x:=f x', fx), ('x:=f y', fy), ('x:=c', c)):
        cases.append(('subst ' + nm, 'subst', {'x': s}))
    cases.append(('subst Q:=%z. P (f z)', 'subst', {'Q': Abs('z', A, Comb(Var('P', AB), Comb(Var('f', AA), Bound(0))))}))
    cases.append(('subst Q:=%x. P y', 'subst', {'Q': Abs('x', A, Comb(Var('P', AB), y))}))
    cases.append(('subst x:=y,Q:=P', 'subst', {'x': y, 'Q': Var('P', AB)}))
    cases.append(('abstract x', 'abstract', x))
    cases.append(('abstract y', 'abstract', y))
    cases.append(('abstract ?x', 'abstract', SVar('x', A)))
    cases.append(('beta_norm', 'beta', None))
    cases.append(('redex (%u. t) (f x)', 'redex', fx))
    cases.append(('redex (%u. t) y', 'redex', y))
    cases.append(('copy', 'copy', None))
    from kernel.type import TVar as _TV, TFun as _TF, BoolType as _B
    for nm, X in (("a:='b", _TV('b')), ('a:=bool', _B), ("a:='b=>'b", _TF(_TV('b'), _TV('b')))):
        cases.append(('subst_type ' + nm, 'subst_type', X))
    return cases


def check_subst_case(t, case):
    """-> (kind or None, detail)"""
    from kernel.term import Inst, Eq, Comb, Abs, Lambda, SVar, Var
    from copy import copy
    f = fam()
    name, op, arg = case
    te = export(t)
    T0 = ind_type(t)
    if T0 is None:
        return None, 'skip'
    try:
        if op == 'subst':
            res = t.subst(Inst(**arg))
            ref = r_subst(te, {k: export(v) for k, v in arg.items()}, {})
            # denotation: (%?x.. t) applied to the instantiating terms equals the result: use lambda over fresh Vars
            names = sorted(arg)
            vs = []
            body = t
            # replace schematic variables by same-named fresh ordinary variables, then abstract and apply
            inst_to_var = Inst(**{k: Var('_' + k, arg[k].get_type()) for k in names})
            body = t.subst(inst_to_var)
            lam = body
            for k in reversed(names):
                lam = Lambda(Var('_' + k, arg[k].get_type()), lam)
            app = lam
            for k in names:
                app = Comb(app, arg[k])
            sem = ([], Eq(app, res))
        elif op == 'abstract':
            res_body = t.abstract_over(arg)
            res = Abs(arg.name, arg.T, res_body)
            ref = ('A', tyx(arg.T), r_abstract(te, export(arg)))
            sem = ([], Eq(Comb(res, arg), t))
        elif op == 'beta':
            res = t.beta_norm()
            ref = r_beta_norm(te)
            sem = ([], Eq(res, t))
        elif op == 'redex':
            red = Comb(Abs('u', f['A'], t.abstract_over(Var('x', f['A']))), arg)
            res = red.beta_norm()
            ref = r_beta_norm(export(red))
            t = red
            T0 = ind_type(red)
            sem = ([], Eq(res, red))
        elif op == 'subst_type':
            from kernel.type import TyInst
            se = schematic(te)
            t2 = from_tuple(se)
            res = t2.subst_type(TyInst(a=arg))
            ref = r_subst_type(se, {'a': tyx(arg)})
            T0 = ind_type(from_tuple(ref))
            sem = None
            same = from_tuple(ref)
            if not (res == same and hash(res) == hash(same)):
                return 'subst-type-eq', 'subst_type result %r differs from / hashes differently than the independently built %r' % (res, same)
            t3 = from_tuple(se)
            hash(t3)                      # populate the hash cache before the in-place update
            t3.subst_type_inplace(TyInst(a=arg))
            if not (t3 == same and hash(t3) == hash(same) and export(t3) == ref):
                return 'subst-type-inplace', 'subst_type_inplace on %r gives %r (hash consistent: %s), expected %r' % (t2, t3, hash(t3) == hash(same), same)
        elif op == 'copy':
            res = copy(t)
            ref = te
            sem = None
            if not (res == t and hash(res) == hash(t)):
                return 'subst-copy', 'copy(%r) differs from the original' % t
        else:
            return None, 'skip'
    except Exception as e:
        # the reference must fail as well (e.g. abstract_over with a clashing type)
        try:
            if op == 'abstract':
                r_abstract(te, export(arg))
            else:
                return None, 'real code raised %s' % type(e).__name__
        except ValueError:
            return None, 'both refuse'
        return None, 'real code raised %s' % type(e).__name__
    if export(res) != ref:
        return 'subst-alpha', '%s on %r: real %r, reference %r' % (name, t, res, ref)
    T1 = ind_type(res)
    want = T0
    if op == 'abstract':
        from kernel.type import TFun
        want = TFun(arg.T, T0)
    if T1 is None or T1 != want:
        return 'subst-type', '%s on %r: result %r has type %s, expected %s' % (name, t, res, T1, want)
    if sem is not None:
        v = oracle().valid(sem[0], sem[1])
        if v.status == 'invalid':
            return 'subst-denotation', '%s on %r: %r is not valid; counter-model %s' % (name, t, sem[1], v.model)
        if v.status == 'unknown':
            return '_unknown', ''
    return None, 'fine'


def run_subst(u, out, twin):
    _, tier, seed, lo, hi = u
    terms = closed_family(2)
    cases = subst_cases()
    for i in range(lo, min(hi, len(terms))):
        t = terms[i]
        for ci, case in enumerate(cases):
            out['evals'] += 1
            out['keys'].add('sub|%d|%d' % (i, ci))
            if twin:
                if ci == 0:
                    out['cex'].append({'kind': 'twin', 'i': i})
                continue
            kind, detail = check_subst_case(t, case)
            if kind == '_unknown':
                out['inconclusive'] += 1
            elif kind:
                out['cex'].append({'kind': kind, 'i': i, 'case': ci, 'detail': detail})
    out['samples'].append({'subst_term': repr(terms[lo]) if lo < len(terms) else None, 'cases': [c[0] for c in cases][:6]})
    o = oracle()
    out['stats'] = {'oracle_calls': o.calls, 'oracle_queries': o.queries, 'oracle_s': round(o.seconds, 3), 'oracle_counts': dict(o.counts)}
    o.calls = o.queries = 0
    o.seconds = 0.0
    for k in o.counts:
        o.counts[k] = 0


# ------------------------------------------------------------------ part 4: shared sub-objects at different binder depths

def shared_cases():
    """Abstractions whose body contains the *same Python object* (a subterm with a loose bound variable) at two binder
    depths -- legal in the de Bruijn representation, never produced by the parser, and exactly what identity-keyed
    caches must get right.  -> list of (name, abstraction, argument)"""
    from kernel.type import TFun, BoolType
    from kernel.term import Var, Const, Comb, Abs, Bound, Eq
    f_ = fam()
    A, AA = f_['A'], f_['AA']
    f = Var('f', AA)
    g = Var('g', TFun(A, A, A))
    h = Var('h', TFun(AA, A, A))
    c, y = Const('c', A), Var('y', A)
    out = []
    for sname, mk in (('f B0', lambda: Comb(f, Bound(0))), ('g B0 B0', lambda: Comb(Comb(g, Bound(0)), Bound(0))), ('g B0 c', lambda: Comb(Comb(g, Bound(0)), c)),
                      ('f (f B0)', lambda: Comb(f, Comb(f, Bound(0))))):
        for cname, ctx in (('shallow-first', lambda s: Abs('x', A, Eq(s, Comb(Abs('y', A, s), c)))),
                           ('deep-first', lambda s: Abs('x', A, Comb(Comb(h, Abs('y', A, s)), s))),
                           ('two-binders', lambda s: Abs('w', A, Abs('x', A, Eq(s, Comb(Abs('y', A, s), Bound(1)))))),
                           ('three-uses', lambda s: Abs('x', A, Comb(Comb(g, s), Comb(Abs('y', A, Comb(Comb(g, s), Comb(Abs('z', A, s), Bound(0)))), c))))):
            for aname, arg in (('c', c), ('f y', Comb(f, y)), ('y', y), ('B0', Bound(0))):
                sub = mk()                  # one object, used at several depths by ctx
                out.append(('%s / %s / %s' % (sname, cname, aname), ctx(sub), arg))
    return out


def check_shared(i):
    """-> (kind or None, detail)"""
    from kernel.term import Comb
    name, ab, arg = shared_cases()[i]
    abe, arge = export(ab), export(arg)
    for opname, real_fn, ref_fn in (
            ('subst_bound', lambda: ab.subst_bound(arg), lambda: r_subst_bound(abe[2], arge)),
            ('beta_conv', lambda: Comb(ab, arg).beta_conv(), lambda: r_subst_bound(abe[2], arge)),
            ('beta_norm', lambda: Comb(ab, arg).beta_norm(), lambda: r_beta_norm(('@', abe, arge))),
            ('incr_boundvars', lambda: ab.incr_boundvars(1), lambda: r_incr(abe, 1)),
            # the open body: the shared object's bound variable is loose at one position and bound at the other
            ('incr_boundvars(body,1)', lambda: ab.body.incr_boundvars(1), lambda: r_incr(abe[2], 1)),
            ('incr_boundvars(body,2)', lambda: ab.body.incr_boundvars(2), lambda: r_incr(abe[2], 2)),
            # ... and as the argument substituted under another binder (which shifts its loose variables)
            ('subst_bound(open argument)', lambda: under_binder().subst_bound(ab.body), lambda: r_subst_bound(export(under_binder())[2], abe[2])),
            ('abstract_over', lambda: ab.abstract_over(fam_y()), lambda: r_abstract(abe, export(fam_y())))):
        try:
            res = export(real_fn())
        except Exception as e:
            res = 'EXC:' + type(e).__name__
        try:
            ref = ref_fn()
        except Exception as e:
            ref = 'EXC'
        if isinstance(res, str) and ref == 'EXC':
            continue
        if res != ref:
            return 'shared-' + opname, '%s on the term %r (sub-object shared at two binder depths: %s) with argument %r gives %s, reference %s' % (opname, ab, name, arg, res, ref)
    return None, 'fine'


def schematic_subst_cases():
    """Patterns at the schematic type ?'a instantiated with an Inst whose type instantiation is empty (it has to be found from
    the assigned terms), partial, or complete.  -> list of (name, pattern, function building a fresh Inst, complete TyInst)"""
    from kernel.type import STVar, TVar, TFun, BoolType, TyInst
    from kernel.term import Var, SVar, Eq, Abs, Bound, Comb, Inst, Const
    SA, A, B = STVar('a'), TVar('a'), TVar('b')
    sx, sy = SVar('x', SA), SVar('y', SA)
    sQ = SVar('Q', TFun(SA, BoolType))
    c, d = Var('c', A), Var('d', B)
    pats = [('?x = ?y', Eq(sx, sy)), ('%z. z = ?x', Abs('z', SA, Comb(Comb(Const('equals', TFun(SA, SA, BoolType)), Bound(0)), sx))), ('?Q ?x', Comb(sQ, sx)), ('(%z. ?Q z) ?x', Comb(Abs('z', SA, Comb(sQ, Bound(0))), sx)),
            ('const f ?x', Comb(Const('ff', TFun(SA, SA)), sx))]
    out = []
    for pn, pat in pats:
        for vn, val, T in (('c', c, A), ('d', d, B)):
            out.append(('%s [x := %s]' % (pn, vn), pat, (lambda val=val: Inst(x=val)), TyInst(a=T)))
    return out


def check_schematic_subst(i):
    name, pat, mk, ty = schematic_subst_cases()[i]
    from kernel.term import Inst
    inst1 = mk()
    try:
        r1 = pat.subst(inst1)
    except Exception as e:
        r1 = None
    pre = mk()
    pre.tyinst = ty
    try:
        ref = pat.subst(pre)
    except Exception:
        return None, 'reference rejected'
    if r1 is None:
        return None, 'rejected'
    if ind_type(r1) is None:
        return 'subst-illtyped', 'subst of %s, type instantiation to be inferred: the result %r is not well-typed' % (name, r1)
    if export(r1) != export(ref):
        return 'subst-schematic-types', 'subst of %s gives %r with an empty type instantiation but %r when the type instantiation is supplied' % (name, r1, ref)
    try:
        r2 = pat.subst(inst1)            # the same Inst object again: the answer must not depend on the first call
    except Exception:
        r2 = None
    if r2 is None or export(r2) != export(r1):
        return 'subst-history', 'subst of %s with the same Inst object gives %r the first time and %r the second time' % (name, r1, r2)
    return None, 'fine'


def order_cases():
    """Pairs of terms of the same shape and names that differ only in types (of constants, variables, binders)."""
    from kernel.type import TVar, TFun, BoolType, NatType, IntType
    from kernel.term import Var, Const, Abs, Bound, Comb, Eq
    A, B = TVar('a'), TVar('b')
    mk = lambda T: [Const('zero', T), Comb(Const('f', TFun(T, T)), Const('zero', T)), Eq(Const('nil', T), Const('nil', T)), Abs('x', T, Bound(0)), Var('v', T),
                    Comb(Var('g', TFun(T, BoolType)), Const('c', T)), Abs('x', T, Comb(Const('h', TFun(T, T)), Bound(0)))]
    out = []
    for T1, T2 in ((NatType, IntType), (A, B), (NatType, A), (TFun(A, A), TFun(A, B))):
        for t1, t2 in zip(mk(T1), mk(T2)):
            out.append((t1, t2))
    return out


def check_order(i):
    from kernel import term_ord
    t1, t2 = order_cases()[i]
    for a, b in ((t1, t2), (t2, t1), (t1, t1)):
        try:
            c = term_ord.fast_compare(a, b)
        except Exception as e:
            return None, 'raised'
        if (c == 0) != (a == b):
            return 'order-equality', 'fast_compare(%r, %r) = %d although the terms are %s' % (a, b, c, 'equal' if a == b else 'different')
    try:
        c12, c21 = term_ord.fast_compare(t1, t2), term_ord.fast_compare(t2, t1)
        if c12 != -c21:
            return 'order-antisymmetry', 'fast_compare(%r, %r) = %d but the converse is %d' % (t1, t2, c12, c21)
    except Exception:
        pass
    return None, 'fine'


def under_binder():
    """%q. %w. k q w  (its body puts the substituted argument under the binder w)"""
    from kernel.type import TFun
    from kernel.term import Var, Comb, Abs, Bound
    A = fam()['A']
    k = Var('k', TFun(A, A, A))
    return Abs('q', A, Abs('w', A, Comb(Comb(k, Bound(1)), Bound(0))))


def fam_y():
    from kernel.term import Var
    return Var('y', fam()['A'])


# ------------------------------------------------------------------ units

def setup(tier, seed):
    from logic import basic
    basic.load_theory('logic_base')
    symx.install_isinstance()


def units(tier, seed):
    us = []
    scr = scripts_of(2 if tier == 'quick' else 3)
    others = scripts_of(1, wraps=False)
    # identity cases: (script index range, op)
    step = 12 if tier == 'quick' else 20
    for op in OPS:
        for lo in range(0, len(scr), step):
            us.append(('ident', tier, op, lo, lo + step))
    n = len(closed_family(2))
    for lo in range(0, n, 40):
        us.append(('laws', tier, seed, lo, lo + 40))
    for lo in range(0, n, 25):
        us.append(('subst', tier, seed, lo, lo + 25))
    us.append(('shared', tier, seed))
    us.append(('schematic', tier, seed))
    random.Random(seed).shuffle(us)
    return us


def run_unit(u):
    out = {'evals': 0, 'keys': set(), 'cex': [], 'samples': [], 'inconclusive': 0, 'stats': {}}
    twin = bool(os.environ.get('VERIF_TWIN'))
    if u[0] == 'ident':
        _, tier, op, lo, hi = u
        scr = scripts_of(2 if tier == 'quick' else 3)
        others = scripts_of(1, wraps=False)
        total = symx.Stats()
        for s in scr[lo:hi]:
            if len(out['cex']) >= 6:
                break
            if op == 'eq':
                # compare against structurally equal and different fresh terms
                base = strip_wraps(s)
                cands = [base] + [o for o in others if o != base][:6]
                for o in cands:
                    total.add(run_identity_case(s, op, o, out, twin))
            else:
                total.add(run_identity_case(s, op, None, out, twin))
        out['stats'] = total.as_dict()
        if lo < len(scr):
            out['samples'].append({'construction_script': scr[lo], 'operation': op, 'identities': 'symbolic'})
    elif u[0] == 'laws':
        run_laws(u, out, twin)
    elif u[0] == 'schematic':
        for part, n, fn in (('schem', len(schematic_subst_cases()), check_schematic_subst), ('order', len(order_cases()), check_order)):
            for i in range(n):
                out['evals'] += 1
                out['keys'].add('%s|%d' % (part, i))
                if twin:
                    continue
                kind, detail = fn(i)
                if kind:
                    out['cex'].append({'kind': kind, 'part': part, 'i': i, 'detail': detail})
        out['samples'].append({'schematic_subst_case': schematic_subst_cases()[0][0]})
    elif u[0] == 'shared':
        for i in range(len(shared_cases())):
            out['evals'] += 1
            out['keys'].add('shared|%d' % i)
            if twin:
                continue
            kind, detail = check_shared(i)
            if kind:
                out['cex'].append({'kind': kind, 'i': i, 'detail': detail})
        out['samples'].append({'shared_subobject_case': shared_cases()[0][0], 'cases': len(shared_cases())})
    else:
        run_subst(u, out, twin)
    out['keys'] = list(out['keys'])
    return out


def strip_wraps(s):
    if s[0] == 'wrap':
        return strip_wraps(s[1])
    if s[0] == 'comb':
        return ('comb', strip_wraps(s[1]), strip_wraps(s[2]))
    if s[0] == 'abs':
        return ('abs', s[1], strip_wraps(s[2]))
    return s


def replay(c):
    k = c['kind']
    if k == 'twin':
        return True, 'twin'
    if k.startswith('identity-'):
        return replay_identity(c)
    if k.startswith('law-'):
        return replay_law(c)
    if k.startswith('shared-'):
        kind, detail = check_shared(c['i'])
        return kind == k, detail
    if c.get('part') in ('schem', 'order'):
        kind, detail = (check_schematic_subst if c['part'] == 'schem' else check_order)(c['i'])
        return kind == k, detail
    terms = closed_family(2)
    kind, detail = check_subst_case(terms[c['i']], subst_cases()[c['case']])
    return kind == k, detail
