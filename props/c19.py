"""C19 -- every integration-calculator step preserves the value of the expression (algebraic fragment).

The calculator manipulates expressions with transcendental functions; what an SMT solver can decide is the
*real-closed-field fragment*: parameters a, b and the integration variable range over the reals, integrands are
generalised polynomials in the integration variable (rational exponents) whose coefficients are arbitrary
rational/sqrt/abs expressions in the parameters.  For that fragment the harness has an independent evaluator
  value : Expr -> z3 real term over the parameters
(definite integrals by the power rule, [F]_x=a,b by substitution, sqrt / rational powers by auxiliary root
variables) and asks z3 (NRA), for each application of a real rule to a generated expression,
  exists parameters satisfying the stated conditions, with both sides defined:  value(before) != value(after) ?
`unsat` = the step is value-preserving for all parameter values; a model is replayed numerically (mpmath
quadrature over an independent float evaluator of the *real* rule output) before it is reported.

Parts:  R rules on definite integrals (Simplify, FullSimplify, Linearity, ExpandPolynomial, DefiniteIntegralIdentity,
          Substitution, SubstitutionInverse, IntegrationByParts, SplitRegion, Equation, OnLocation/OnSubterm, 2-step chains)
        N normalisation: value-preserving (z3) and idempotent
        D symbolic differentiation agrees with an independent textbook derivative (z3 equality of the two functions)
        B interval bounds enclose all attained values (z3: no point of the box maps outside the returned interval)
        P print / parse round trip of every expression met
        I side conditions of the table identities: whenever DefiniteIntegralIdentity uses an identity under a context, z3 must show
          that the context entails the identity's conditions (this part does not need the integrand to be in the fragment)
"""
import itertools
import os
import random
from fractions import Fraction

import z3

PID = 'C19'
LEVEL = 'other'
LEVEL_TEXT = ('Bounded families of expressions and rule parameters pushed through the real integral.rules / poly.normalize / rules.deriv / interval code; '
              'for every application an SMT query (z3, nonlinear real arithmetic) over *symbolic parameters* decides whether the value before and after can differ '
              '(definite integrals of generalised polynomials are evaluated in closed form by an independent evaluator). Only the real-closed-field fragment is '
              'decided: steps whose input or output leaves it (log, exp, trigonometric functions, limits, series, improper integrals) are counted as outside the claim.')
LEVEL_NOTE = ('trusts z3 (NRA) and the harness evaluator (power rule, substitution into [F]_x=a,b, root variables); parameters symbolic, expression shapes and rule '
              'arguments enumerated within the stated families; transcendental steps and the ~70 recorded example files are outside the decided fragment')
TECHNIQUE = 'real rule applications on generated expressions + SMT (z3 NRA) equivalence of closed-form values over symbolic parameters; counterexamples replayed by numeric quadrature'
FUNCTIONS = ['integral.rules:Simplify/FullSimplify/Linearity/ExpandPolynomial/DefiniteIntegralIdentity/Substitution/SubstitutionInverse/IntegrationByParts/SplitRegion/Equation/OnLocation/OnSubterm.eval',
             'integral.rules:deriv', 'integral.poly:normalize', 'integral.interval:get_bounds_for_expr', 'integral.parser:parse_expr', 'integral.expr:Expr.__str__',
             'integral.context:Context.load_book/add_condition']
ASSUMPTIONS = [
    'parameters a, b are real with the stated conditions (a > 0, b > a); the integration variable is real; both sides of a step are required to be defined (denominators non-zero, radicands non-negative)',
    'integrands are generalised polynomials in the integration variable after expansion (rational exponents, coefficients free of the variable); anything else is outside the fragment and skipped (counted)',
    'integrals of exponent -1 (logarithms), infinite bounds, limits, series and transcendental functions are outside the fragment',
    'context = integral/examples/base.json identities (Context.load_book("base"))',
    'z3 timeout 6 s per query; unknown is inconclusive',
]
RULE = ('one evaluation = one rule application / normalisation / derivative / bound computation on one expression; distinct = distinct (rule, arguments, expression); '
        'non-trivial = the real code returned a result and both sides were inside the fragment, so that the SMT query was discharged')
EXPLANATION = ('the value of both sides is a closed-form z3 term in the symbolic parameters; z3 decides inequality over all parameter values allowed by the conditions; '
               'shapes and rule arguments are enumerated, parameter values are not')
BUDGET_S = {'quick': 240, 'thorough': 900}


def bounds(tier):
    return {'integrands': len(INTEGRANDS), 'bounds': len(BOUNDS), 'rule_instances': 'Simplify FullSimplify Linearity ExpandPolynomial DefiniteIntegralIdentity; %d substitutions; %d inverse substitutions; '
            '%d by-parts pairs; %d split points; %d rewrites; 4 compound contexts; 2-step chains; ExpandPolynomial on 4 bases ^2..9; derivatives of 11 integrals with variable limits; 72 roots of monomials with constant factors' % (len(SUBSTS), len(INV_SUBSTS), len(PARTS), len(SPLITS), len(REWRITES)),
            'normalize_deriv_bounds_exprs': 'grammar depth 3 over x a constants + - * / ^k sqrt abs, every second one also with sin cos tan cot sec csc exp log atan asin acos (uninterpreted + sin^2+cos^2=1): %d seeded' % (300 if tier == 'quick' else 6000),
            'parameters': 'symbolic reals (a > 0, b > a)', 'z3_timeout_ms': 6000}


class Unsup(Exception):
    pass


_S = {}


def setup(tier, seed):
    import warnings
    warnings.filterwarnings('ignore')
    from integral import rules, parser, context, expr, poly, conditions, interval  # noqa
    ctx = context.Context()
    ctx.load_book('base')
    ctx.add_condition('a > 0')
    ctx.add_condition('b > a')
    _S.update({'ctx': ctx, 'P': parser.parse_expr, 'rules': rules, 'expr': expr, 'poly': poly, 'interval': interval, 'context': context, 'conditions': conditions})
    import builtins
    rules.print = lambda *a, **k: None     # Substitution prints when it cannot solve


# ------------------------------------------------------------------ independent evaluator: Expr -> z3

class ZEval:
    def __init__(self):
        self.side = []      # definitions of auxiliary root variables
        self.defd = []      # definedness conditions of the evaluated expressions
        self.params = {}
        self.naux = 0
        self.uf_used = False
        self.pole_guard = False     # a definedness condition excluding a pole inside / at the end of an interval of integration was added

    def param(self, name):
        if name not in self.params:
            self.params[name] = z3.Real('p_' + name)
        return self.params[name]

    def ipow(self, b, n):
        r = z3.RealVal(1)
        for _ in range(n):
            r = r * b
        return r

    def rpow(self, b, q):
        q = Fraction(q)
        if q.denominator == 1:
            n = q.numerator
            if n == 0:
                self.defd.append(b != 0)       # 0 ^ 0 has no agreed value: outside the claim
            if n >= 0:
                return self.ipow(b, n)
            self.defd.append(b != 0)
            return 1 / self.ipow(b, -n)
        if q.denominator > 6 or abs(q.numerator) > 12:
            raise Unsup('power %s' % q)
        t = z3.Real('root%d' % self.naux)
        self.naux += 1
        if q.denominator % 2 == 1:
            # odd root: defined for every real base, sign of the base (times parity of the numerator) is kept
            self.side += [self.ipow(t, q.denominator) == self.ipow(b, abs(q.numerator))]
        else:
            self.side += [t >= 0, self.ipow(t, q.denominator) == self.ipow(b, abs(q.numerator))]
            self.defd.append(b >= 0)
        if q > 0:
            return t
        self.defd.append(b != 0)
        return 1 / t

    def val(self, e, env):
        E = _S['expr']
        if e.is_const():
            return z3.RealVal(Fraction(e.val))
        if e.is_var():
            return env[e.name] if e.name in env else self.param(e.name)
        if e.is_inf():
            raise Unsup('infinity')
        if e.is_op():
            if len(e.args) == 1:
                return -self.val(e.args[0], env)
            a, b = e.args
            if e.op == '^':
                if not b.is_const():
                    raise Unsup('symbolic exponent')
                return self.rpow(self.val(a, env), Fraction(b.val))
            x, y = self.val(a, env), self.val(b, env)
            if e.op == '+':
                return x + y
            if e.op == '-':
                return x - y
            if e.op == '*':
                return x * y
            if e.op == '/':
                self.defd.append(y != 0)
                return x / y
            raise Unsup('operator ' + e.op)
        if e.is_fun():
            if e.func_name == 'sqrt' and len(e.args) == 1:
                return self.rpow(self.val(e.args[0], env), Fraction(1, 2))
            if e.func_name == 'abs' and len(e.args) == 1:
                x = self.val(e.args[0], env)
                return z3.If(x >= 0, x, -x)
            return self.transcendental(e, env)
        if e.is_integral() and (e.lower.is_inf() or e.upper.is_inf()):
            # improper integral of a generalised polynomial: every monomial must decay (integer exponent < -1), its primitive
            # vanishes at infinity
            env2 = {k: v for k, v in env.items() if k != e.var}
            cs = self.coeffs(e.body, e.var, env2)
            lo = None if e.lower.is_inf() else self.val(e.lower, env)
            hi = None if e.upper.is_inf() else self.val(e.upper, env)
            if lo is None and hi is None:
                raise Unsup('integral over the whole line')
            tot = z3.RealVal(0)
            for q, c in cs.items():
                if q.denominator != 1 or q >= -1:
                    raise Unsup('divergent or fractional improper integral')
                q1 = q + 1
                self.pole_guard = True
                if lo is None:
                    self.defd.append(hi < 0)
                    tot = tot + c * self.rpow(hi, q1) / z3.RealVal(q1)
                else:
                    self.defd.append(lo > 0)
                    tot = tot - c * self.rpow(lo, q1) / z3.RealVal(q1)
            return tot
        if e.is_integral():
            lo, hi = self.val(e.lower, env), self.val(e.upper, env)
            env2 = {k: v for k, v in env.items() if k != e.var}
            cs = self.coeffs(e.body, e.var, env2)
            tot = z3.RealVal(0)
            for q, c in cs.items():
                if q == -1:
                    raise Unsup('logarithmic integral')
                if q.denominator != 1:
                    self.defd += [lo >= 0, hi >= 0]
                    if q < 0:
                        raise Unsup('negative fractional exponent in integrand')
                elif q < 0:
                    self.defd.append(lo * hi > 0)
                    self.pole_guard = True
                q1 = q + 1
                tot = tot + c * (self.rpow(hi, q1) - self.rpow(lo, q1)) / z3.RealVal(q1)
            return tot
        if e.is_evalat():
            lo, hi = self.val(e.lower, env), self.val(e.upper, env)
            return self.val(e.body, dict(env, **{e.var: hi})) - self.val(e.body, dict(env, **{e.var: lo}))
        raise Unsup('expression kind %s' % type(e).__name__)

    def uf(self, name, x):
        """Transcendental functions are *uninterpreted* (plus sin^2 + cos^2 = 1 at every argument used): an `unsat` answer
        (equal under every interpretation) is sound; a model is only a candidate and must be confirmed numerically."""
        self.uf_used = True
        f = z3.Function('uf_' + name, z3.RealSort(), z3.RealSort())
        return f(x)

    def transcendental(self, e, env):
        n = e.func_name
        if n == 'pi' and not e.args:
            self.uf_used = True
            p = z3.Real('const_pi')
            self.side += [p > z3.RealVal('3.14159'), p < z3.RealVal('3.1416')]
            return p
        if len(e.args) != 1:
            raise Unsup('function ' + n)
        x = self.val(e.args[0], env)
        if n in ('sin', 'cos', 'tan', 'cot', 'sec', 'csc'):
            sn, cs = self.uf('sin', x), self.uf('cos', x)
            self.side.append(sn * sn + cs * cs == 1)
            if n == 'sin':
                return sn
            if n == 'cos':
                return cs
            den = cs if n in ('tan', 'sec') else sn
            self.defd.append(den != 0)
            return {'tan': sn / cs, 'cot': cs / sn, 'sec': 1 / cs, 'csc': 1 / sn}[n]
        if n == 'log':
            self.defd.append(x > 0)
            return self.uf('log', x)
        if n == 'exp':
            y = self.uf('exp', x)
            self.side.append(y > 0)
            return y
        if n in ('asin', 'acos'):
            self.defd += [x > -1, x < 1]
            return self.uf(n, x)
        if n in ('atan', 'acot', 'sinh', 'cosh', 'tanh'):
            return self.uf(n, x)
        raise Unsup('function ' + n)

    def coeffs(self, e, var, env):
        """e as a generalised polynomial in var: {exponent (Fraction): z3 coefficient}."""
        if var not in e.get_vars():
            return {Fraction(0): self.val(e, env)}
        if e.is_var():
            return {Fraction(1): z3.RealVal(1)}
        if e.is_op():
            if len(e.args) == 1:
                return {q: -c for q, c in self.coeffs(e.args[0], var, env).items()}
            a, b = e.args
            if e.op in '+-':
                ca, cb = self.coeffs(a, var, env), self.coeffs(b, var, env)
                out = dict(ca)
                for q, c in cb.items():
                    out[q] = (out[q] + c if e.op == '+' else out[q] - c) if q in out else (c if e.op == '+' else -c)
                return out
            if e.op == '*':
                return self.cmul(self.coeffs(a, var, env), self.coeffs(b, var, env))
            if e.op == '/':
                ca, cb = self.coeffs(a, var, env), self.coeffs(b, var, env)
                if len(cb) != 1:
                    raise Unsup('division by a non-monomial in the integration variable')
                (q, c), = cb.items()
                self.defd.append(c != 0)
                return {qa - q: x / c for qa, x in ca.items()}
            if e.op == '^':
                if not b.is_const():
                    raise Unsup('symbolic exponent')
                k = Fraction(b.val)
                ca = self.coeffs(a, var, env)
                if len(ca) == 1:
                    (q, c), = ca.items()
                    return {q * k: self.rpow(c, k)}
                if k.denominator == 1 and 0 <= k <= 6:
                    out = {Fraction(0): z3.RealVal(1)}
                    for _ in range(int(k)):
                        out = self.cmul(out, ca)
                    return out
                raise Unsup('power of a non-monomial')
        if e.is_fun() and e.func_name == 'sqrt':
            ca = self.coeffs(e.args[0], var, env)
            if len(ca) == 1:
                (q, c), = ca.items()
                return {q / 2: self.rpow(c, Fraction(1, 2))}
            raise Unsup('sqrt of a non-monomial')
        raise Unsup('integrand not a generalised polynomial')

    @staticmethod
    def cmul(ca, cb):
        out = {}
        for qa, x in ca.items():
            for qb, y in cb.items():
                out[qa + qb] = out[qa + qb] + x * y if qa + qb in out else x * y
        return out

    def cond(self, c, env):
        x, y = self.val(c.args[0], env), self.val(c.args[1], env)
        return {'>': x > y, '<': x < y, '>=': x >= y, '<=': x <= y, '=': x == y, '!=': x != y}[c.op]


def loses_definedness(before, after, conds, extra=None, timeout=4000):
    """Parameter values (as in compare) at which `before` is defined and `after` is not, or None."""
    ev = ZEval()
    try:
        ev.val(before, {})
        n1, s1 = len(ev.defd), len(ev.side)
        ev.val(after, {})
        cs = [ev.cond(c, {}) for c in conds] + ([ev.cond(c, {}) for c in extra] if extra else [])
    except Unsup:
        return None
    if len(ev.defd) == n1:
        return None
    s = z3.Solver()
    s.set('timeout', timeout)
    # auxiliary roots of `after` are only constrained when their radicand is admissible, so they cannot block the query
    for g in ev.side[:s1] + ev.defd[:n1] + cs:
        s.add(g)
    s.add(z3.Not(z3.And(ev.defd[n1:])))
    if str(s.check()) != 'sat':
        return None
    m = s.model()
    vals = {}
    for n, p in ev.params.items():
        v = m.eval(p, model_completion=True)
        try:
            vals[n] = str(Fraction(v.numerator_as_long(), v.denominator_as_long()))
        except Exception:
            return None
    return vals


def compare(before, after, conds, extra=None, timeout=6000):
    """-> ('equal'|'differ'|'unknown'|'outside', info)."""
    ev = ZEval()
    try:
        v1 = ev.val(before, {})
        n1 = len(ev.defd)
        v2 = ev.val(after, {})
        cs = [ev.cond(c, {}) for c in conds]
        if extra:
            cs += [ev.cond(c, {}) for c in extra]
    except Unsup as e:
        return 'outside', str(e)
    s = z3.Solver()
    s.set('timeout', timeout)
    for g in ev.side + ev.defd + cs:
        s.add(g)
    s.add(v1 != v2)           # (no push/pop: an incremental z3 solver is much weaker on nonlinear real arithmetic)
    r = str(s.check())
    if r == 'unsat':
        # guard against vacuity (only where a pole condition was assumed): are the two sides defined together anywhere at all?
        sv = z3.Solver()
        sv.set('timeout', 2000)
        for g in ev.side + ev.defd + cs:
            sv.add(g)
        if ev.pole_guard and str(sv.check()) == 'unsat':
            s0 = z3.Solver()
            s0.set('timeout', timeout)
            for g in ev.side + ev.defd[:n1] + cs:
                s0.add(g)
            if str(s0.check()) == 'sat':
                m0 = s0.model()
                vals0 = {}
                for n, p in ev.params.items():
                    v = m0.eval(p, model_completion=True)
                    try:
                        vals0[n] = str(Fraction(v.numerator_as_long(), v.denominator_as_long()))
                    except Exception:
                        pass
                return 'after-undefined', vals0        # the input has a value, the result has none anywhere
            return 'outside', 'nowhere defined'
        return 'equal', None
    if r == 'sat':
        m = s.model()
        if ev.uf_used:
            # prefer a model with the parameters at generic points (the uninterpreted functions say nothing about poles or zeros)
            for lo_, hi_ in (('1/3', '5/4'), ('-5/4', '-1/3'), ('3/2', '3')):
                s.push()
                for p in ev.params.values():
                    s.add(p > z3.RealVal(lo_), p < z3.RealVal(hi_))
                if str(s.check()) == 'sat':
                    m = s.model()
                    s.pop()
                    break
                s.pop()
        vals = {'__uf__': True} if ev.uf_used else {}
        for n, p in ev.params.items():
            if n.startswith('__'):
                continue
            v = m.eval(p, model_completion=True)
            try:
                vals[n] = str(Fraction(v.numerator_as_long(), v.denominator_as_long()))
            except Exception:
                vals[n] = v.approx(12).as_decimal(12).rstrip('?') if hasattr(v, 'approx') else str(v)
        return 'differ', vals
    return 'unknown', None


# ------------------------------------------------------------------ independent float evaluator (replay)

def feval(e, env):
    import math
    import mpmath
    if e.is_const():
        return float(Fraction(e.val))
    if e.is_var():
        return env[e.name]
    if e.is_inf():
        return float('inf') if e == _S['expr'].POS_INF else float('-inf')
    if e.is_op():
        if len(e.args) == 1:
            return -feval(e.args[0], env)
        x, y = feval(e.args[0], env), feval(e.args[1], env)
        if e.op == '^':
            if x < 0 and y != int(y):
                q = Fraction(e.args[1].val) if e.args[1].is_const() else None
                if q is not None and q.denominator % 2 == 1:
                    r = (-x) ** float(q)          # odd root of a negative number: real
                    return r if q.numerator % 2 == 0 else -r
                return float('nan')
            return x ** y
        return {'+': lambda: x + y, '-': lambda: x - y, '*': lambda: x * y, '/': lambda: x / y}[e.op]()
    if e.is_fun():
        a = [feval(x, env) for x in e.args]
        if e.func_name == 'pi':
            return math.pi
        return {'sqrt': math.sqrt, 'abs': abs, 'exp': math.exp, 'log': math.log, 'sin': math.sin, 'cos': math.cos, 'tan': math.tan, 'atan': math.atan,
                'cot': lambda t: math.cos(t) / math.sin(t), 'sec': lambda t: 1 / math.cos(t), 'csc': lambda t: 1 / math.sin(t), 'asin': math.asin, 'acos': math.acos,
                'sinh': math.sinh, 'cosh': math.cosh, 'tanh': math.tanh, 'acot': lambda t: math.pi / 2 - math.atan(t)}[e.func_name](*a)
    if e.is_integral():
        lo, hi = feval(e.lower, env), feval(e.upper, env)
        pts = [lo, 0.0, hi] if lo < 0 < hi else [lo, hi]          # a pole of the integrand, if any, is at 0 in the generated families
        return float(mpmath.quad(lambda t: feval(e.body, dict(env, **{e.var: float(t)})), pts))
    if e.is_evalat():
        return feval(e.body, dict(env, **{e.var: feval(e.upper, env)})) - feval(e.body, dict(env, **{e.var: feval(e.lower, env)}))
    raise Unsup('feval ' + type(e).__name__)


def numeric_differs(before, after, vals):
    env = {}
    for k, v in vals.items():
        if k.startswith('__'):
            continue
        try:
            env[k] = float(Fraction(v))
        except Exception:
            env[k] = float(v)
    try:
        x, y = feval(before, env), feval(after, env)
    except (Unsup, ZeroDivisionError, ValueError, OverflowError) as e:
        return None, 'numeric evaluation failed: %r' % e
    if x != x or y != y:
        return None, 'nan'
    return abs(x - y) > 1e-6 * max(1.0, abs(x), abs(y)), 'at %s: before = %.9g, after = %.9g' % (vals, x, y)


# ------------------------------------------------------------------ families

INTEGRANDS = ['x', 'x^2', 'a*x + 1', '(x+1)^2', 'x*(x+a)', '(x+1)*(x-1)', 'x^3 - a*x', '(a*x+b)^2', '2*x*(x^2+1)', '(2*x+1)^3', 'x^2/a', '3', 'x/2 - x^2/3', '(x-a)^3',
              'x*(1-x)^2', 'sqrt(x)', 'x*sqrt(x)', '1/x^2', 'sqrt(a)*x', 'x^2 + abs(a - b)']
BOUNDS = [('0', '1'), ('-1', '2'), ('a', 'b'), ('1', '3'), ('-2', '-1'), ('0', 'a'), ('-a', 'a'), ('1', 'a+1'), ('-2', '0')]
SUBSTS = ['2*x+1', 'x+a', '-x', '3-x', 'x^2', 'x^2+1', 'a*x', 'x/2', '1-2*x', 'x^3', '(x-1)^2', 'sqrt(x)', 'x-b', '1/x']
INV_SUBSTS = ['u+1', '2*u', '-u', 'u^2', 'a*u', '1-u', 'u/2+1', 'u^3', 'sqrt(u)', '1/u', '1/(u-3)']
PARTS = [('x', 'x^2/2', 'x'), ('x^2', 'x', '1'), ('x+a', 'x^3/3', 'x^2'), ('a*x', '(x+1)^2/2', 'x+1'), ('x', 'x', '1'), ('(x-1)^2', 'x^2', '2*x'), ('sqrt(x)', 'x', '1')]
SPLITS = ['0', '1/2', 'a', '5', '(a+b)/2', '-1', 'b']
REWRITES = [('(x+1)^2', 'x^2+2*x+1'), ('(x+1)^2', 'x^2+1'), ('x*(x+a)', 'x^2+a*x'), ('x*(x+a)', 'x^2+a'), ('(x+1)*(x-1)', 'x^2-1'), ('x^2/a', 'x^2*a'), ('x^2/a', '(1/a)*x^2'),
            ('sqrt(x)', 'x^(1/2)'), ('x*sqrt(x)', 'x^(3/2)'), ('x*sqrt(x)', 'x^2'), ('1/x^2', 'x^(-2)'), ('(x-a)^3', 'x^3-3*a*x^2+3*a^2*x-a^3'), ('(x-a)^3', 'x^3-a^3')]


# integrals whose limits / integrand depend on the differentiation variable (Leibniz rule), for part D
DERIV_EXTRA = ['INT t:[x,1]. t^2', 'INT t:[0,x]. t^2', 'INT t:[x,x^2]. t*a', 'INT t:[x^2,3]. t + x', 'INT t:[0,1]. t*x^2', 'INT t:[-x,x]. t^2*x', 'x * (INT t:[x,2]. t)',
               'INT t:[a*x,1]. t^3', 'INT t:[1,x+a]. (t+x)^2', '(INT t:[x,1]. t) * (INT t:[0,x]. t^2)', 'INT t:[2*x,3*x]. 1']
# roots / fractional powers of monomials with positive and negative constant factors (normalisation pulls constants out of roots)
ROOTS = [t % c for c in ('-4', '4', '-9', '-2', '2', '-1', '1/4', '-1/9', '-8') for t in ('sqrt(%s*x)', '(%s*x)^(1/2)', '(%s*x)^(3/2)', 'sqrt(%s*x*a)', 'sqrt(%s*x^2)', '(%s*x)^(1/3)', '1/sqrt(%s*x)', 'x*sqrt(%s*x)')]
# even / odd powers of expressions changing sign on the box (interval arithmetic for powers of mixed-sign intervals)
SQUARES = ['x^2', '(x-1)^2', '(x+1/2)^2', 'x^4', 'x^3', '(x-1)^3', '(2*x-1)^2', 'x^2*a', '(x-a)^2', '1/(x^2+1)', '(x^2-1)^2', 'abs(x)^2', 'x^(-2)']
# products / quotients of two factors for every combination of sign patterns on the boxes (corner products of interval arithmetic)
PRODUCTS = ['x*(x-1)', 'x*(x-3)', '(x+1)*(x-1)', '(x+3)*(x-1/2)', 'a*(x-1)', 'a*x', '(a-1)*(x-1)', '(x+3)*x', 'x^2*(x-1)', 'abs(x)*(x-1)', '(x-1)*abs(x)', '(x+3)*(x-4)',
            '(x-4)*(x+3)', '(x-4)*(x-5)', 'a*(x-1)*x', '(x+3)/(x-4)', '(x-1)/(x+4)', 'a/(x-4)', '(x-1)/a', '(x+3)*(a-3)', '(1-a)*(x+1/2)', 'x*(x-1)*(x+1)']
FIXED_CHUNK = 12
# powers for ExpandPolynomial (square-and-multiply style slips show at exponents >= 5)
EXPAND = ['(x+1)^%d', '(x-a)^%d', '(2*x+a)^%d * (x+1)', '(x^2+1)^%d']


def simple_rules():
    R = _S['rules']
    return [('Simplify', R.Simplify()), ('FullSimplify', R.FullSimplify()), ('Linearity', R.Linearity()), ('ExpandPolynomial', R.ExpandPolynomial()),
            ('DefiniteIntegralIdentity', R.DefiniteIntegralIdentity())]


def rule_instances(body):
    """(label, constructor) list for one integrand string."""
    R, P = _S['rules'], _S['P']
    out = [(n, (lambda r=r: r)) for n, r in simple_rules()]
    for g in SUBSTS:
        out.append(('Substitution(u,%s)' % g, lambda g=g: R.Substitution('u', P(g))))
    for f in INV_SUBSTS:
        out.append(('SubstitutionInverse(u,%s)' % f, lambda f=f: R.SubstitutionInverse('u', P(f))))
    for c in SPLITS:
        out.append(('SplitRegion(%s)' % c, lambda c=c: R.SplitRegion(P(c))))
    for old, new in REWRITES:
        if old == body:
            out.append(('Equation(%s,%s)' % (old, new), lambda old=old, new=new: R.Equation(P(old), P(new))))
            out.append(('Equation(None,%s)' % new, lambda new=new: ('whole', new)))
    return out


def apply_rule(rule, e, ctx):
    """-> ('ok', result) | ('own-error', msg) | ('bad', msg)"""
    from vlib.symx import call_with_budget, NonTermination
    try:
        res = call_with_budget(rule.eval, 20.0, e, ctx)
    except (AssertionError, NotImplementedError, TypeError, ValueError, ZeroDivisionError, KeyError, AttributeError, IndexError, NonTermination, RecursionError) as ex:
        return 'own-error', '%s: %s' % (type(ex).__name__, str(ex)[:80])
    except Exception as ex:
        return 'own-error', '%s: %s' % (type(ex).__name__, str(ex)[:80])
    if not isinstance(res, _S['expr'].Expr):
        return 'bad', 'returned %r' % (res,)
    return 'ok', res


def judge_step(label, before, after, out, rec, extra_conds=None, definedness=False):
    """SMT comparison of one step; appends a counterexample record when they can differ."""
    ctx = _S['ctx']
    conds = ctx.get_conds().data if hasattr(ctx.get_conds(), 'data') else list(ctx.get_conds())
    st, info = compare(before, after, conds, extra_conds)
    out['stats'][st] = out['stats'].get(st, 0) + 1
    if st == 'equal':
        out['keys'].add('%s|%s' % (label, before))
        # loss of definedness is judged for normalisation only; for rules with user-chosen parameters (a split point outside
        # the interval, a substitution with a pole inside it) it is outside the claim
        vals = loses_definedness(before, after, conds, extra_conds) if definedness else None
        if vals is not None:
            # confirm numerically: before has a real value there, after has none
            env = {k: float(Fraction(v)) for k, v in vals.items()}
            try:
                x = feval(before, env)
                okb = x == x and abs(x) != float('inf')
            except Exception:
                okb = False
            try:
                y = feval(after, env)
                oka = not (y == y) or isinstance(y, complex)
            except (ValueError, ZeroDivisionError):
                oka = True
            except Exception:
                oka = False
            if okb and oka:
                out['cex'].append(dict(rec, kind='step-loses-definedness:' + label.split('(')[0], sig='%s|%s' % (label, before), before=str(before), after=str(after),
                                       detail='%s on %s returns %s, which has no real value at %s although the input evaluates to %.9g there' % (label, before, after, vals, x)))
    elif st == 'unknown':
        out['inconclusive'] += 1
        out['stats']['unknown:' + label.split('(')[0].split('[')[0]] = out['stats'].get('unknown:' + label.split('(')[0].split('[')[0], 0) + 1
    elif st == 'after-undefined':
        # the result is defined nowhere (under the conditions) although the input is: confirmed numerically before it is reported
        out['keys'].add('%s|%s' % (label, before))
        env = {k: float(Fraction(v)) for k, v in info.items()}
        try:
            x = feval(before, env)
            okb = x == x and abs(x) != float('inf')
        except Exception:
            okb = False
        bad_after = False
        try:
            import mpmath
            y = feval(after, env)
            bad_after = not (y == y) or abs(y) > 1e12
        except (ValueError, ZeroDivisionError, OverflowError):
            bad_after = True
        except Exception:
            bad_after = False
        if okb and bad_after:
            out['cex'].append(dict(rec, kind='step-result-undefined:' + label.split('(')[0], sig='%s|%s' % (label, before), before=str(before), after=str(after),
                                   detail='%s on %s returns %s, which has no (finite real) value for any parameter values although the input evaluates to %.9g at %s' % (label, before, after, x, info)))
        else:
            out['inconclusive'] += 1
    elif st == 'differ':
        out['keys'].add('%s|%s' % (label, before))
        ok, why = numeric_differs(before, after, info)
        if ok is None:
            out['inconclusive'] += 1      # model could not be confirmed numerically (e.g. value at a pole): not reported
            out['stats']['unconfirmed_models'] = out['stats'].get('unconfirmed_models', 0) + 1
        elif ok:
            out['cex'].append(dict(rec, kind='step-changes-value:' + label.split('(')[0], sig='%s|%s' % (label, before), before=str(before),
                                   detail='%s on %s returns %s; values differ %s' % (label, before, after, why)))
        else:
            out['stats']['model_not_reproduced'] = out['stats'].get('model_not_reproduced', 0) + 1
            out['inconclusive'] += 1
    return st


def roundtrip(e, out, rec):
    """Printing then parsing: the text must parse, mean the same as the printed expression (z3), and from then on
    be a fixed point (parse(str(e1)) == e1 structurally).  Expressions that are undefined everywhere (division by the
    literal 0) are outside the claim.  Const(-3) for Op(-, Const(3)) is the parser's reading of "-3": same value, accepted."""
    P = _S['P']
    out['evals'] += 1
    txt = str(e)
    try:
        e1 = P(txt)
    except Exception as ex:
        ev = ZEval()
        try:
            ev.val(e, {})
            s = z3.Solver()
            s.set('timeout', 3000)
            s.add(ev.side + ev.defd)
            if str(s.check()) != 'sat':
                return          # nowhere defined
        except Unsup:
            pass
        out['cex'].append(dict(rec, kind='print-unparsable', sig='pp|%s' % txt, detail='expression %r prints as "%s", which does not parse: %s' % (e, txt, str(ex)[:60])))
        return
    if e1 != e:
        st, info = compare(e, e1, [])
        if st == 'differ':
            ok, why = numeric_differs(e, e1, info)
            if ok:
                out['cex'].append(dict(rec, kind='print-parse-differs', sig='pp|%s' % txt, detail='expression %r prints as "%s", which parses as %r; %s' % (e, txt, e1, why)))
                return
        elif st in ('unknown', 'outside'):
            out['inconclusive'] += 1
    try:
        e2 = P(str(e1))
    except Exception as ex:
        out['cex'].append(dict(rec, kind='print-unparsable', sig='pp|%s' % e1, detail='parsed expression %r prints as "%s", which does not parse: %s' % (e1, e1, str(ex)[:60])))
        return
    if e2 != e1:
        out['cex'].append(dict(rec, kind='print-parse-differs', sig='pp|%s' % e1, detail='parsed expression %r prints as "%s", which parses as the different expression %r' % (e1, e1, e2)))
    else:
        out['keys'].add('pp|%s' % txt)


# ------------------------------------------------------------------ part R

def run_rules(u, out):
    _, tier, bi, which = u
    P, R, E = _S['P'], _S['rules'], _S['expr']
    ctx = _S['ctx']
    twin = os.environ.get('VERIF_TWIN')
    for ii, body in enumerate(INTEGRANDS):
        if which != 'all' and ii not in which:
            continue
        lo, hi = BOUNDS[bi]
        src = 'INT x:[%s,%s]. %s' % (lo, hi, body)
        e0 = P(src)
        insts = rule_instances(body)
        for pi, (u_, v_, dv_) in enumerate(PARTS):
            if ii == pi:          # integrand u * dv built for this pair
                pass
        for label, mk in insts:
            rec = {'part': 'rules', 'bounds': bi, 'integrand': ii, 'rule': label}
            out['evals'] += 1
            r = mk()
            if isinstance(r, tuple):
                r = R.Equation(None, P('INT x:[%s,%s]. %s' % (lo, hi, r[1])))
            st, res = apply_rule(r, e0, ctx)
            if st != 'ok':
                out['stats'][st] = out['stats'].get(st, 0) + 1
                if st == 'bad':
                    out['cex'].append(dict(rec, kind='rule-bad-result', sig='%s|%s' % (label, src), detail='%s on %s: %s' % (label, src, res)))
                continue
            if twin:
                if len(out['cex']) < 2:
                    out['cex'].append(dict(rec, kind='twin'))
                continue
            judge_step(label, e0, res, out, rec)
            roundtrip(res, out, rec)
            # second step of a chain: evaluate the result further with the simple rules
            if tier != 'quick' or label.startswith(('Substitution', 'DefiniteIntegralIdentity', 'SplitRegion')):
                for n2, r2 in simple_rules()[1:2] + simple_rules()[4:5]:
                    out['evals'] += 1
                    st2, res2 = apply_rule(r2, res, ctx)
                    if st2 == 'ok' and res2 != res:
                        judge_step(label + ';' + n2, res, res2, out, dict(rec, then=n2))
            if len(out['cex']) >= 40:
                return
    if which != 'all' and 'extra' not in which:
        out['samples'].append({'integral': 'INT x:[%s,%s]. %s' % (BOUNDS[bi][0], BOUNDS[bi][1], INTEGRANDS[which[0]]), 'rule_instances': len(rule_instances(INTEGRANDS[which[0]]))})
        return
    # integration by parts on u * dv
    for pi, (us, vs, dvs) in enumerate(PARTS):
        lo, hi = BOUNDS[bi]
        src = 'INT x:[%s,%s]. (%s) * (%s)' % (lo, hi, us, dvs)
        e0 = P(src)
        for wrong in (False, True):
            label = 'IntegrationByParts(%s,%s%s)' % (us, vs, '+x' if wrong else '')
            rec = {'part': 'rules', 'bounds': bi, 'parts': pi, 'wrong': wrong, 'rule': label}
            out['evals'] += 1
            st, res = apply_rule(R.IntegrationByParts(P(us), P(vs + ('+x^2' if wrong else ''))), e0, ctx)
            if st != 'ok':
                out['stats'][st] = out['stats'].get(st, 0) + 1
                continue
            if twin:
                continue
            judge_step(label, e0, res, out, rec)
            roundtrip(res, out, rec)
    # ExpandPolynomial on powers 2..9
    lo, hi = BOUNDS[bi]
    for ti, tpl in enumerate(EXPAND):
        for n in range(2, 10 if ti < 2 else 7):
            src = 'INT x:[%s,%s]. %s' % (lo, hi, tpl % n)
            e0 = P(src)
            label = 'ExpandPolynomial[^%d]' % n
            rec = {'part': 'rules', 'bounds': bi, 'expand': [ti, n], 'rule': label}
            out['evals'] += 1
            st, res = apply_rule(R.ExpandPolynomial(), e0, ctx)
            if st != 'ok':
                out['stats'][st] = out['stats'].get(st, 0) + 1
                continue
            if twin:
                continue
            judge_step(label, e0, res, out, rec)
    # rules at a location inside a compound expression
    lo, hi = BOUNDS[bi]
    for ci, (src, loc) in enumerate([('3 + 2 * (INT x:[%s,%s]. x*(x+a))' % (lo, hi), '1.1'), ('(INT x:[%s,%s]. x^2) * (INT x:[%s,%s]. a*x+1)' % (lo, hi, lo, hi), '1'),
                                     ('(INT x:[%s,%s]. (x+1)^2) / a' % (lo, hi), '0'), ('a - (INT x:[%s,%s]. x^3 - a*x)' % (lo, hi), '1')]):
        e0 = P(src)
        for n, r in simple_rules() + [('Substitution(u,2*x+1)', R.Substitution('u', P('2*x+1'))), ('SplitRegion(1/2)', R.SplitRegion(P('1/2')))]:
            for wrap in ('OnLocation', 'OnSubterm', 'direct'):
                label = '%s(%s)' % (wrap, n)
                rec = {'part': 'rules', 'bounds': bi, 'compound': ci, 'rule': label}
                out['evals'] += 1
                rr = R.OnLocation(r, loc) if wrap == 'OnLocation' else R.OnSubterm(r) if wrap == 'OnSubterm' else r
                st, res = apply_rule(rr, e0, ctx)
                if st != 'ok':
                    out['stats'][st] = out['stats'].get(st, 0) + 1
                    continue
                if twin:
                    continue
                judge_step(label, e0, res, out, rec)
    out['samples'].append({'integral': 'INT x:[%s,%s]. %s' % (BOUNDS[bi][0], BOUNDS[bi][1], INTEGRANDS[1]), 'rule_instances': len(rule_instances(INTEGRANDS[3]))})


# ------------------------------------------------------------------ parts N, D, B: expression grammar

def gen_expr(rnd, depth, trans=False):
    E = _S['expr']
    x, a = E.Var('x'), E.Var('a')
    leaves = [x, x, a, E.Const(0), E.Const(1), E.Const(2), E.Const(Fraction(1, 2)), E.Const(-1), E.Const(3), E.Const(Fraction(-1, 2)), E.Const(Fraction(-3, 2)), E.Const(-2)]

    def g(d):
        if d == 0 or rnd.random() < 0.25:
            return rnd.choice(leaves)
        k = rnd.choice(['+', '-', '*', '/', '^', 'neg', 'sqrt', 'abs', '+', '*'] + (['fun', 'fun', 'fun'] if trans else []))
        if k == 'fun':
            return E.Fun(rnd.choice(TRANS[:12]), g(d - 1))
        if k == 'neg':
            return E.Op('-', g(d - 1))
        if k == '^':
            return E.Op('^', g(d - 1), E.Const(rnd.choice([0, 1, 2, 3, -1, -2, Fraction(1, 2)])))
        if k in ('sqrt', 'abs'):
            return E.Fun(k, g(d - 1))
        return E.Op(k, g(d - 1), g(d - 1))
    return g(depth)


TRANS = ['sin', 'cos', 'tan', 'cot', 'sec', 'csc', 'exp', 'log', 'atan', 'asin', 'acos', 'acot', 'sinh', 'cosh']


def my_deriv(e, var):
    """Textbook derivative, written from the rules of calculus (independent of integral.rules.deriv)."""
    E = _S['expr']
    C = E.Const
    if var not in e.get_vars():
        return C(0)
    if e.is_var():
        return C(1)
    if e.is_op():
        if len(e.args) == 1:
            return E.Op('-', my_deriv(e.args[0], var))
        a, b = e.args
        da, db = my_deriv(a, var), my_deriv(b, var)
        if e.op == '+':
            return E.Op('+', da, db)
        if e.op == '-':
            return E.Op('-', da, db)
        if e.op == '*':
            return E.Op('+', E.Op('*', da, b), E.Op('*', a, db))
        if e.op == '/':
            return E.Op('/', E.Op('-', E.Op('*', da, b), E.Op('*', a, db)), E.Op('^', b, C(2)))
        if e.op == '^' and b.is_const():
            return E.Op('*', E.Op('*', b, E.Op('^', a, C(Fraction(b.val) - 1))), da)
    if e.is_integral():
        # Leibniz rule: f(u) u' - f(l) l' + INT d/dx f
        fu, fl = e.body.subst(e.var, e.upper), e.body.subst(e.var, e.lower)
        return E.Op('+', E.Op('-', E.Op('*', fu, my_deriv(e.upper, var)), E.Op('*', fl, my_deriv(e.lower, var))),
                    E.Integral(e.var, e.lower, e.upper, my_deriv(e.body, var)))
    if e.is_fun() and e.func_name == 'sqrt':
        return E.Op('/', my_deriv(e.args[0], var), E.Op('*', C(2), e))
    if e.is_fun() and e.func_name == 'abs':
        return E.Op('*', my_deriv(e.args[0], var), E.Op('/', e.args[0], e))
    if e.is_fun() and len(e.args) == 1 and e.func_name in TRANS:
        u = e.args[0]
        du = my_deriv(u, var)
        F = lambda n, t=u: E.Fun(n, t)
        one, two = C(1), C(2)
        d = {'sin': lambda: F('cos'), 'cos': lambda: E.Op('-', F('sin')), 'tan': lambda: E.Op('^', F('sec'), two), 'cot': lambda: E.Op('-', E.Op('^', F('csc'), two)),
             'sec': lambda: E.Op('*', F('sec'), F('tan')), 'csc': lambda: E.Op('-', E.Op('*', F('csc'), F('cot'))), 'exp': lambda: F('exp'), 'log': lambda: E.Op('/', one, u),
             'atan': lambda: E.Op('/', one, E.Op('+', one, E.Op('^', u, two))), 'asin': lambda: E.Op('/', one, E.Fun('sqrt', E.Op('-', one, E.Op('^', u, two)))),
             'acos': lambda: E.Op('-', E.Op('/', one, E.Fun('sqrt', E.Op('-', one, E.Op('^', u, two))))),
             'acot': lambda: E.Op('-', E.Op('/', one, E.Op('+', one, E.Op('^', u, two)))), 'sinh': lambda: F('cosh'), 'cosh': lambda: F('sinh')}[e.func_name]()
        return E.Op('*', d, du)
    raise Unsup('derivative of %s' % e)


def kinks(e):
    """Arguments of abs / sqrt / negative or fractional powers (points where the derivative may not exist)."""
    out = []
    if e.is_fun() and e.func_name in ('abs', 'sqrt'):
        out.append(e.args[0])
    if e.is_op() and e.op == '^' and e.args[1].is_const() and (Fraction(e.args[1].val) < 1):
        out.append(e.args[0])
    for sub in (e.args if (e.is_op() or e.is_fun()) else []):
        out += kinks(sub)
    return out


def somewhere_defined(e):
    """False only when z3 shows that e is undefined for every value of its variables (e.g. division by abs(0))."""
    ev = ZEval()
    try:
        ev.val(e, {})
    except Unsup:
        return True
    s = z3.Solver()
    s.set('timeout', 3000)
    s.add(ev.side + ev.defd)
    return str(s.check()) != 'unsat'


def same_value(e1, e2):
    """True when z3 proves the two expressions equal wherever both are defined, or -- when it cannot decide -- when they agree
    numerically at three generic points (used only to classify a known finding, never for a verdict)."""
    st, _ = compare(e1, e2, [])
    if st == 'equal':
        return True
    if st == 'differ':
        return False
    ok = 0
    for pt in ({'x': 0.37, 'a': 1.3, 'b': 2.1}, {'x': 1.9, 'a': 0.6, 'b': 1.1}, {'x': -0.8, 'a': 2.2, 'b': 3.0}):
        try:
            u, v = feval(e1, pt), feval(e2, pt)
        except Exception:
            continue
        if u == u and v == v:
            if abs(u - v) > 1e-9 * max(1.0, abs(u)):
                return False
            ok += 1
    return ok > 0


def idem_shape(ne, ne2):
    """Classifies a non-idempotent pair: 'fraction-times-sum' when the first normal form keeps a sum as an atom multiplied
    by a constant fraction (c * (s + t)) and the second round only distributes the constant over it."""
    def has_fs(t):
        if t.is_op() and t.op == '*' and any(x.is_const() for x in t.args) and any(x.is_op() and x.op in '+-' and len(x.args) == 2 for x in t.args):
            return True
        return any(has_fs(x) for x in (t.args if (t.is_op() or t.is_fun()) else []))
    if has_fs(ne) and not has_fs(ne2):
        st, _ = compare(ne, ne2, [])
        if st == 'equal':
            return 'fraction-times-sum'

    def terms(t, sign=1):
        # signed additive terms
        if t.is_op() and t.op == '+' and len(t.args) == 2:
            return terms(t.args[0], sign) + terms(t.args[1], sign)
        if t.is_op() and t.op == '-' and len(t.args) == 2:
            return terms(t.args[0], sign) + terms(t.args[1], -sign)
        if t.is_op() and t.op == '-' and len(t.args) == 1:
            return terms(t.args[0], -sign)
        return [(sign, str(t))]
    if sorted(terms(ne)) == sorted(terms(ne2)):
        return 'terms-reordered'

    def base_of(t):
        return t.args[0] if (t.is_op() and t.op == '^' and t.args[1].is_const()) else t

    def has_split_power(t):
        # a product of two powers of one base (x * x, x * x ^ 2) that a further round merges into a single power
        if t.is_op() and t.op == '*' and len(t.args) == 2 and base_of(t.args[0]) == base_of(t.args[1]) and not base_of(t.args[0]).is_const():
            return True
        return any(has_split_power(x) for x in (t.args if (t.is_op() or t.is_fun()) else []))
    if has_split_power(ne) and not has_split_power(ne2):
        st, _ = compare(ne, ne2, [])
        if st == 'equal':
            return 'powers-merged'
    return 'other'


def run_exprs(u, out):
    _, tier, seed, lo, n = u
    E, R = _S['expr'], _S['rules']
    poly, interval = _S['poly'], _S['interval']
    ctx = _S['ctx']
    conds = ctx.get_conds()
    rnd = random.Random('c19e-%s-%s' % (seed, lo))
    twin = os.environ.get('VERIF_TWIN')
    from vlib.symx import call_with_budget, NonTermination
    # lo < 0: chunk -lo-1 of the fixed expressions (FIXED_CHUNK each), no generated ones
    allfixed = DERIV_EXTRA + ROOTS + SQUARES + PRODUCTS
    fixed = [_S['P'](t) for t in allfixed[(-lo - 1) * FIXED_CHUNK:(-lo) * FIXED_CHUNK]] if lo < 0 else []
    if lo < 0:
        n = min(n, len(fixed)) - len(fixed)     # replay passes k+1: stop after the k-th fixed expression
    for k in range(n + len(fixed)):
        e = fixed[k] if k < len(fixed) else gen_expr(rnd, 3, trans=(k % 2 == 1))      # every second expression uses transcendental functions
        rec = {'part': 'exprs', 'seed': seed, 'lo': lo, 'k': k}
        roundtrip(e, out, rec)
        # N: normalisation
        out['evals'] += 1
        try:
            ne = call_with_budget(poly.normalize, 20.0, e, conds)
        except (NonTermination, Exception):
            ne = None
        if twin:
            if ne is not None and len(out['cex']) < 2:
                out['cex'].append(dict(rec, kind='twin'))
            continue
        if ne is not None and not somewhere_defined(e):
            out['stats']['nowhere_defined'] = out['stats'].get('nowhere_defined', 0) + 1
            ne = None
        if ne is not None:
            judge_step('normalize', e, ne, out, dict(rec, what='normalize'), definedness=True)
            try:
                ne2 = call_with_budget(poly.normalize, 20.0, ne, conds)
                if ne2 != ne:
                    try:
                        ne3 = call_with_budget(poly.normalize, 20.0, ne2, conds)
                    except (NonTermination, Exception):
                        ne3 = None
                    out['cex'].append(dict(rec, kind='normalize-not-idempotent', what='idem', sig='idem|%s' % e, shape=idem_shape(ne, ne2),
                                           second_round_is_fixpoint=(ne3 == ne2), same_value=same_value(ne, ne2),
                                           detail='normalize(%s) = %s, but normalising that again gives %s' % (e, ne, ne2)))
            except (NonTermination, Exception):
                pass
        # D: derivative
        out['evals'] += 1
        try:
            de = call_with_budget(R.deriv, 20.0, 'x', e, ctx)
            md = my_deriv(e, 'x')
        except (NonTermination, Unsup, Exception):
            de = None
        if de is not None:
            # away from kinks (arguments of abs / sqrt / negative powers non-zero, radicands positive)
            extra = [E.Op('!=', kk, E.Const(0)) for kk in kinks(e)]
            st, info = compare(md, de, list(conds.data) if hasattr(conds, 'data') else list(conds), extra)
            out['stats']['deriv_' + st] = out['stats'].get('deriv_' + st, 0) + 1
            if st == 'equal':
                out['keys'].add('deriv|%s' % e)
            elif st == 'unknown':
                out['inconclusive'] += 1
            elif st == 'differ':
                ok, why = numeric_differs(md, de, info)
                # confirm against a central difference quotient of the original expression
                if ok:
                    try:
                        env = {kk: float(Fraction(v)) for kk, v in info.items()}
                        env.setdefault('x', 0.0)
                        h = 1e-6
                        dq = (feval(e, dict(env, x=env['x'] + h)) - feval(e, dict(env, x=env['x'] - h))) / (2 * h)
                        dv = feval(de, env)
                        if abs(dq - dv) > 1e-3 * max(1.0, abs(dq)):
                            out['cex'].append(dict(rec, kind='deriv-wrong', what='deriv', sig='deriv|%s' % e,
                                                   detail='deriv(x, %s) = %s; at %s the difference quotient is %.6g, the returned derivative evaluates to %.6g' % (e, de, info, dq, dv)))
                        else:
                            out['stats']['deriv_model_not_reproduced'] = out['stats'].get('deriv_model_not_reproduced', 0) + 1
                            out['inconclusive'] += 1
                    except (Unsup, ZeroDivisionError, ValueError, OverflowError):
                        out['inconclusive'] += 1
                else:
                    out['inconclusive'] += 1
        # B: interval bounds over x in [l, h], a in [1, 2]
        out['evals'] += 1
        boxes = [(0, 1), (1, 2), (-1, 1), (-2, -1), (Fraction(1, 2), 3), (-3, 1), (-1, 2), (Fraction(-5, 2), Fraction(1, 2)), (0, Fraction(3, 2))]
        rbox = rnd.choice(boxes)
        for box in (boxes if k < len(fixed) else [rbox]):       # the fixed expressions are bounded over every box
            try:
                bd = {E.Var('x'): interval.Interval.closed(E.Const(box[0]), E.Const(box[1])), E.Var('a'): interval.Interval.closed(E.Const(1), E.Const(2))}
                iv = call_with_budget(interval.get_bounds_for_expr, 20.0, e, bd)
            except (NonTermination, Exception):
                iv = None
            if iv is not None:
                check_bounds(e, box, iv, out, dict(rec, what='bounds', box=[str(box[0]), str(box[1])]))
        if len(out['cex']) >= 40:
            break
    out['samples'].append({'expression': str(e)})


def check_bounds(e, box, iv, out, rec):
    E = _S['expr']
    ev = ZEval()
    try:
        v = ev.val(e, {})
        lo = None if iv.start.is_inf() else ev.val(iv.start, {})
        hi = None if iv.end.is_inf() else ev.val(iv.end, {})
    except Unsup:
        out['stats']['bounds_outside'] = out['stats'].get('bounds_outside', 0) + 1
        return
    s = z3.Solver()
    s.set('timeout', 6000)
    x, a = ev.param('x'), ev.param('a')
    for g in ev.side + ev.defd:
        s.add(g)
    s.add(x >= z3.RealVal(Fraction(box[0])), x <= z3.RealVal(Fraction(box[1])), a >= 1, a <= 2)
    outside = []
    if lo is not None:
        outside.append(v <= lo if iv.left_open else v < lo)
    if hi is not None:
        outside.append(v >= hi if iv.right_open else v > hi)
    if not outside:
        out['keys'].add('bounds|%s' % e)
        return
    s.add(z3.Or(outside))
    r = str(s.check())
    out['stats']['bounds_' + r] = out['stats'].get('bounds_' + r, 0) + 1
    if r == 'unsat':
        out['keys'].add('bounds|%s|%s' % (e, box))
    elif r == 'unknown':
        out['inconclusive'] += 1
    else:
        m = s.model()
        try:
            xv = m.eval(x, model_completion=True)
            av = m.eval(a, model_completion=True)
            env = {'x': float(Fraction(xv.numerator_as_long(), xv.denominator_as_long())), 'a': float(Fraction(av.numerator_as_long(), av.denominator_as_long()))}
            val = feval(e, env)
            l = None if iv.start.is_inf() else feval(iv.start, {})
            h = None if iv.end.is_inf() else feval(iv.end, {})
        except Exception:
            out['inconclusive'] += 1
            return
        bad = (l is not None and (val < l - 1e-9 or (iv.left_open and abs(val - l) < 1e-12))) or (h is not None and (val > h + 1e-9 or (iv.right_open and abs(val - h) < 1e-12)))
        if bad:
            out['cex'].append(dict(rec, kind='bounds-not-enclosing', sig='bounds|%s|%s' % (e, box),
                                   detail='get_bounds_for_expr(%s, x in [%s,%s], a in [1,2]) = %s, but at x=%s a=%s the value is %.9g' % (e, box[0], box[1], iv, env['x'], env['a'], val)))
        else:
            out['inconclusive'] += 1


# ------------------------------------------------------------------ part I: side conditions of table identities

def identity_cases():
    """(lhs text, [condition texts]) of the definite-integral identities of the base book that carry side conditions."""
    import json
    d = json.load(open(os.path.join(os.environ.get('HOLPY_REPO', '/repo'), 'integral', 'examples', 'base.json')))
    out = []
    for it in d['content']:
        t = it.get('expr') or it.get('eq')
        if not t or not it.get('conds') or '=' not in t:
            continue
        lhs = t.split('=')[0].strip()
        if lhs.startswith('(INT') and ':[' in lhs:
            out.append((lhs, [c['cond'] if isinstance(c, dict) else c for c in it['conds']]))
    return out


def run_identities(u, out):
    """For every sign pattern of the parameters: if DefiniteIntegralIdentity rewrites the identity's own left-hand side under a
    context, the context must entail the identity's side conditions (z3, linear arithmetic over the parameters)."""
    P, R = _S['P'], _S['rules']
    from integral import context as C
    twin = os.environ.get('VERIF_TWIN')
    for ci, (lhs, conds) in enumerate(identity_cases()):
        e = P(lhs)
        cexprs = [P(c) for c in conds]
        params = sorted({v for c in cexprs for v in c.get_vars()} - {e.var if e.is_integral() else ''})
        for signs in itertools.product(('> 0', '< 0', None), repeat=len(params)):
            ctx = C.Context()
            ctx.load_book('base')
            cc = []
            for pn, sg in zip(params, signs):
                if sg:
                    ctx.add_condition('%s %s' % (pn, sg))
                    cc.append(P('%s %s' % (pn, sg)))
            out['evals'] += 1
            st, res = apply_rule(R.DefiniteIntegralIdentity(), e, ctx)
            if st != 'ok' or res == e or (res.is_integral() and res.body == e.body):
                continue
            if twin:
                if not out['cex']:
                    out['cex'].append({'kind': 'twin', 'part': 'ident'})
                continue
            out['keys'].add('ident|%s|%s' % (lhs, signs))
            ev = ZEval()
            try:
                hyp = [ev.cond(c, {}) for c in cc]
                goal = z3.And([ev.cond(c, {}) for c in cexprs])
            except Unsup:
                out['stats']['outside'] = out['stats'].get('outside', 0) + 1
                continue
            sv = z3.Solver()
            sv.set('timeout', 4000)
            sv.add(hyp + ev.side)
            sv.add(z3.Not(goal))
            r = str(sv.check())
            out['stats']['ident_' + r] = out['stats'].get('ident_' + r, 0) + 1
            if r == 'sat':
                m = sv.model()
                vals = {n: str(m.eval(p_, model_completion=True)) for n, p_ in ev.params.items()}
                out['cex'].append({'kind': 'identity-used-outside-its-conditions', 'part': 'ident', 'case': ci, 'signs': list(signs), 'sig': 'ident|%s|%s' % (lhs, signs),
                                   'detail': 'under the conditions [%s] DefiniteIntegralIdentity rewrites %s to %s although the identity requires [%s], which fails e.g. at %s' % (
                                       ', '.join(str(c) for c in cc), e, res, ', '.join(conds), vals)})
            elif r != 'unsat':
                out['inconclusive'] += 1
    out['samples'].append({'identities_with_conditions': [c[0] for c in identity_cases()]})


# ------------------------------------------------------------------ units / replay

def units(tier, seed):
    us = [('ident', tier)]
    for bi in range(len(BOUNDS)):
        for ii in range(0, len(INTEGRANDS), 2):
            us.append(('rules', tier, bi, (ii, ii + 1)))
        us.append(('rules', tier, bi, ('extra',)))
    n = 300 if tier == 'quick' else 6000
    for lo in range(0, n, 20):
        us.append(('exprs', tier, seed, lo, 20))
    nfixed = len(DERIV_EXTRA + ROOTS + SQUARES + PRODUCTS)
    for c in range((nfixed + FIXED_CHUNK - 1) // FIXED_CHUNK):
        us.append(('exprs', tier, seed, -c - 1, FIXED_CHUNK))
    random.Random(seed).shuffle(us)
    us.sort(key=lambda u: 0 if u[0] == 'rules' else 1)
    return us


def run_unit(u):
    out = {'evals': 0, 'keys': set(), 'cex': [], 'samples': [], 'inconclusive': 0, 'stats': {}}
    if u[0] == 'rules':
        run_rules(u, out)
    elif u[0] == 'ident':
        run_identities(u, out)
    else:
        run_exprs(u, out)
    out['keys'] = list(out['keys'])
    return out


def replay(c):
    if c['kind'] == 'twin':
        return True, 'twin'
    out = {'evals': 0, 'keys': set(), 'cex': [], 'samples': [], 'inconclusive': 0, 'stats': {}}
    if c['part'] == 'ident':
        run_identities(('ident', 'quick'), out)
        m = [x for x in out['cex'] if x.get('sig') == c.get('sig')]
        return (True, m[0]['detail']) if m else (False, 'not reproduced')
    if c['part'] == 'rules':
        run_rules(('rules', 'thorough' if c.get('then') else 'quick', c['bounds'], (c['integrand'],) if 'integrand' in c else ('extra',)), out)
        m = [x for x in out['cex'] if x.get('sig') == c.get('sig') and x['kind'] == c['kind']]
    else:
        run_exprs(('exprs', 'quick', c['seed'], c['lo'], c['k'] + 1), out)
        m = [x for x in out['cex'] if x['k'] == c['k'] and x['kind'] == c['kind']]
    return (True, m[0]['detail']) if m else (False, 'not reproduced')
