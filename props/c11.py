"""C11 -- definitional theory items are conservative (claimed part: inconsistency-freedom and well-typedness).

Inputs (E): definition items `c x1 .. xn = rhs` generated from a grammar that contains the adversarial cases: the
constant on its own right-hand side, a right-hand free variable not on the left, a right-hand type variable that does not
occur in the constant's type, repeated or non-variable arguments, an overloaded name; plus a few Fun / Inductive / Datatype items.
Each item goes through the real items.parse_item.  If it is *accepted as a definition* (error is None):
 (S) the defining equation, universally closed and instantiated at every assignment of its type variables to finite sorts of
     size 1 and 2 -- with the new constant one function symbol per instance *of its own type* -- must be satisfiable
     (finite tuple encoding, z3).  A proper definition always is (c := %xs. rhs), so this cannot raise a false alarm;
     `c x <--> ~(c x)` and `c <--> (!x y::'b. x = y)` are unsatisfiable.
 Every extension produced by get_extension is well-typed over the extended signature (real check_term/check_type +
 an independent type checker).
The export_json / get_display round trip of every accepted generated item is compared structurally (as server.monitor does).
Outside the claim: full conservativity over arbitrary models, termination of recursive functions, and the
round trip of the 4000 library items (concrete corpus through the Lark parser).
"""
import itertools
import os
import random

import z3

PID = 'C11'
LEVEL = 'other'
LEVEL_TEXT = ('Definition items from an adversarial grammar go through the real parser/acceptance code; for each accepted definition an SMT solver decides whether its '
              'defining equation is satisfiable in all finite instances (type variables of size 1 and 2), which a conservative definition always is; generated extensions '
              'are type-checked against the extended signature. Only inconsistency-freedom and well-typedness are claimed.')
LEVEL_NOTE = 'trusts z3 and the finite tuple encoding (vlib/holsmt.Fin); larger type instances, recursion termination and the library save/load round trip are outside the claim'
TECHNIQUE = 'adversarial definition items through the real acceptance code + SMT satisfiability of the defining equation over finite type instances'
FUNCTIONS = ['server.items:parse_item', 'server.items:Definition.parse/get_extension', 'server.items:Fun.parse/get_extension', 'server.items:Inductive.parse/get_extension',
             'server.items:Datatype.parse/get_extension', 'kernel.theory:Theory.add_term_sig/unchecked_extend/check_term/check_type']
ASSUMPTIONS = ['definition grammar: result types bool and a, 0-2 arguments, right-hand sides built from the arguments, the constant itself, an extra variable, quantifiers over a and over a type variable b not in the constant\'s type',
               'satisfiability over type variables of size 1 and 2 (all assignments); definitions over infinite types (nat) use the array encoding and count as inconclusive unless z3 answers',
               'theory: logic_base (nat for the arithmetic items)']
RULE = ('one evaluation = one item description pushed through parse_item; distinct = distinct descriptions; non-trivial = accepted as a definition (then its defining equation went to the solver) '
        'or an extension was type-checked')
EXPLANATION = 'accepted definition => defining equation (closed, all finite type instances, one symbol for the constant) is satisfiable, decided by z3'
BUDGET_S = {'quick': 240, 'thorough': 900}


def bounds(tier):
    return {'definition_items': len(def_items()), 'generated_definitions': '%d seeded (recursive grammar, depth <= 3)' % (200 if tier == 'quick' else 1500), 'other_items': len(other_items()), 'type_variable_sizes': [1, 2]}


def setup(tier, seed):
    from data import nat  # noqa
    from logic import basic
    basic.load_theory('nat')


_D = {}


def def_items():
    """List of item descriptions (dicts as in the library JSON files)."""
    if 'defs' in _D:
        return _D['defs']
    items = []
    # (type, lhs) shapes
    shapes = [("bool", "c0"), ("'a => bool", "c1 x"), ("'a => 'a => bool", "c2 x y"), ("'a => 'a", "c3 x"), ("('a => 'a) => 'a => 'a", "c4 f x"), ("'a => 'a => bool", "c5 x x"),
              ("nat => bool", "c6 n"), ("nat => nat", "c7 n"), ("'a => bool", "c8 (g x)"), ("nat", "c9")]
    bool_rhs = {
        'c0': ["true", "~c0", "c0", "c0 --> false", "!u::'b. !v::'b. u = v", "?u::'b. !v::'b. u = v", "~(!u::'b. !v::'b. u = v)", "(p::bool)", "!u::'a. u = u"],
        'c1': ["x = x", "~(c1 x)", "c1 x", "!u::'a. u = x", "!u::'a. c1 u", "~(!u::'a. c1 u)", "x = y", "!u::'b. !v::'b. u = v", "c1 x --> (!u::'a. ~(c1 u))", "?u::'a. ~(u = x) & c1 u"],
        'c2': ["x = y", "c2 y x", "~(c2 y x)", "~(c2 x y)", "c2 x x & ~(c2 y y)", "!u::'a. c2 u y", "x = z"],
        'c5': ["x = x"],
        'c6': ["n = 0", "~(c6 n)", "c6 (n + 1)", "~(c6 (n + 1))", "c6 (n - 1)", "n < m"],
        'c8': ["x = x"],
    }
    a_rhs = {
        'c3': ["x", "c3 x", "c3 (c3 x)", "y", "if x = x then x else c3 x"],
        'c4': ["f (f x)", "f (c4 f x)", "c4 f (f x)", "x"],
        'c7': ["n + 1", "c7 n + 1", "c7 (n + 1)", "if n = 0 then 0 else c7 (n - 1) + 1", "c7 n"],
        'c9': ["0", "c9 + 1", "c9", "c9 * 0"],
    }
    for T, lhs in shapes:
        name = lhs.split()[0]
        if name in bool_rhs:
            for r in bool_rhs[name]:
                items.append({'ty': 'def', 'name': name, 'type': T, 'prop': "%s <--> %s" % (lhs, r)})
        if name in a_rhs:
            for r in a_rhs[name]:
                items.append({'ty': 'def', 'name': name, 'type': T, 'prop': "%s = %s" % (lhs, r)})
    # a type variable that is not in the constant's type and occurs only below a binder whose own type does not mention it
    for nm, T, lhs in (('c0', 'bool', 'c0'), ('c1', "'a => bool", 'c1 x')):
        for r in ("(!w::bool. !u::'b. !v::'b. u = v)", "((%w::bool. !u::'b. !v::'b. u = v) true)", "(?w::bool. ?u::'b. !v::'b. u = v)", "(!w::bool. w --> (!u::'b. !v::'b. u = v))",
                  "(!w::bool. !u::'a. u = u)"):
            items.append({'ty': 'def', 'name': nm, 'type': T, 'prop': "%s <--> %s" % (lhs, r)})
    # schematic variables on either side
    items += [{'ty': 'def', 'name': 'c0', 'type': "bool", 'prop': "c0 <--> ?x"}, {'ty': 'def', 'name': 'c1', 'type': "'a => bool", 'prop': "c1 x <--> (x = ?y)"},
              {'ty': 'def', 'name': 'c3', 'type': "'a => 'a", 'prop': "c3 x = ?z"}, {'ty': 'def', 'name': 'c1', 'type': "'a => bool", 'prop': "c1 ?x <--> true"},
              {'ty': 'def', 'name': 'c1', 'type': "'a => bool", 'prop': "c1 x <--> (!u::'a. u = ?w)"}]
    # a schematic variable on the right that shares its name with an argument variable
    items += [{'ty': 'def', 'name': 'c3', 'type': "'a => 'a", 'prop': "c3 x = ?x"}, {'ty': 'def', 'name': 'c1', 'type': "'a => bool", 'prop': "c1 x <--> (?x = x)"},
              {'ty': 'def', 'name': 'c2', 'type': "'a => 'a => bool", 'prop': "c2 x y <--> (?y = x)"}, {'ty': 'def', 'name': 'c6', 'type': "nat => bool", 'prop': "c6 n <--> (?n = 0)"},
              {'ty': 'def', 'name': 'c6', 'type': "nat => bool", 'prop': "c6 n <--> ?n"}]
    # constants the theory already has, "defined" again at exactly their type
    items += [{'ty': 'def', 'name': 'true', 'type': "bool", 'prop': "true <--> false"}, {'ty': 'def', 'name': 'false', 'type': "bool", 'prop': "false <--> true"},
              {'ty': 'def', 'name': 'disj', 'type': "bool => bool => bool", 'prop': "disj x y <--> x & y"}, {'ty': 'def', 'name': 'neg', 'type': "bool => bool", 'prop': "neg x <--> x"},
              {'ty': 'def', 'name': 'true', 'type': "bool", 'prop': "true <--> (!u::'b. !v::'b. u = v)"}]
    # malformed / overloaded
    items += [{'ty': 'def', 'name': 'plus', 'type': "bool => bool => bool", 'prop': "plus (x::bool) y <--> x | y"},
              {'ty': 'def', 'name': 'c1', 'type': "'a => bool", 'prop': "c1 x --> true"},
              {'ty': 'def', 'name': 'c1', 'type': "'a => bool", 'prop': "d1 x <--> true"},
              {'ty': 'def', 'name': 'conj', 'type': "bool => bool => bool", 'prop': "conj x y <--> ~x"},
              {'ty': 'def', 'name': 'c1', 'type': "'a => bool", 'prop': "c1 (x::'b) <--> true"}]
    # instances of overloaded constants that the theory already defines (nat): a second definition must not be installed
    items += [{'ty': 'def', 'name': 'plus', 'type': "nat => nat => nat", 'prop': "plus (x::nat) y = 0"}, {'ty': 'def', 'name': 'plus', 'type': "nat => nat => nat", 'prop': "(x::nat) + y = Suc x"},
              {'ty': 'def', 'name': 'less', 'type': "nat => nat => bool", 'prop': "(x::nat) < y <--> true"}, {'ty': 'def', 'name': 'less_eq', 'type': "nat => nat => bool", 'prop': "(x::nat) <= y <--> x = y"},
              {'ty': 'def', 'name': 'times', 'type': "nat => nat => nat", 'prop': "(x::nat) * y = x"}, {'ty': 'def', 'name': 'zero', 'type': "nat", 'prop': "(0::nat) = Suc 0"},
              {'ty': 'def', 'name': 'minus', 'type': "nat => nat => nat", 'prop': "(x::nat) - y = x"}]
    # new instances of overloaded constants (the name is already in the signature; the instance is what is being defined)
    for nm, sym in (('less', '<'), ('less_eq', '<='), ('plus', '+'), ('times', '*')):
        isrel = nm in ('less', 'less_eq')
        for T, xs in (("bool => bool => %s" % ('bool' if isrel else 'bool'), ('x', 'y', 'bool')), ("(nat => nat) => (nat => nat) => %s" % ('bool' if isrel else 'nat => nat'), ('f', 'g', 'nat => nat'))):
            a, b, aT = xs
            lhs = "(%s::%s) %s %s" % (a, aT, sym, b)
            if aT == 'bool':
                rhss = ["%s | %s" % (a, b), "~(%s)" % lhs, "(%s::%s) %s %s" % (b, aT, sym, a), "~((%s::%s) %s %s)" % (b, aT, sym, a), "%s & ~((%s::%s) %s %s)" % (a, a, aT, sym, a), "(0::nat) %s 1" % sym if isrel else "%s & %s" % (a, b)]
            elif isrel:
                rhss = ["!n. %s n %s %s n" % (a, sym, b), "~(%s)" % lhs, "~((%s::%s) %s %s)" % (b, aT, sym, a), "%s 0 %s %s 0 & (%s::%s) %s %s" % (a, sym, b, a, aT, sym, b)]
            else:
                rhss = ["(%%n. %s n %s %s n)" % (a, sym, b), "(%%n. Suc ((%s) n))" % lhs, "(%%n. ((%s::%s) %s %s) n)" % (b, aT, sym, a), "(%%n. Suc (((%s::%s) %s %s) n))" % (b, aT, sym, a)]
            for r in rhss:
                items.append({'ty': 'def', 'name': nm, 'type': T, 'prop': "%s %s %s" % (lhs, '<-->' if (isrel or aT == 'bool') else '=', r)})
    # generated right-hand sides (depth 2) for the predicate shapes
    rnd = random.Random(5)
    for name, T, lhs, atoms in (('c1', "'a => bool", 'c1 x', ["x = x", "c1 x", "(!u::'a. c1 u)", "(?u::'a. ~(c1 u))", "(!u::'b. !v::'b. u = v)", "x = y", "(?u::'a. ~(u = x))"]),
                                ('c2', "'a => 'a => bool", 'c2 x y', ["x = y", "c2 y x", "c2 x x", "(!u::'a. c2 u y)", "(?u::'b. !v::'b. u = v)", "c2 y y"])):
        seen = set()
        for _ in range(400):
            k = rnd.choice(['&', '|', '-->', '<-->', '~&', '~'])
            a, b = rnd.choice(atoms), rnd.choice(atoms)
            r = {'&': '%s & %s', '|': '%s | %s', '-->': '%s --> %s', '<-->': '(%s) <--> (%s)', '~&': '~(%s) & %s', '~': '~(%s --> %s)'}[k] % (a, b)
            if r not in seen and len(seen) < 70:
                seen.add(r)
                items.append({'ty': 'def', 'name': name, 'type': T, 'prop': "%s <--> (%s)" % (lhs, r)})
    _D['defs'] = items
    return items


def other_items():
    if 'other' in _D:
        return _D['other']
    items = [
        {'ty': 'def.ind', 'name': 'dbl', 'type': 'nat => nat', 'rules': [{'prop': 'dbl 0 = 0'}, {'prop': 'dbl (Suc n) = Suc (Suc (dbl n))'}]},
        {'ty': 'def.ind', 'name': 'bad', 'type': 'nat => nat', 'rules': [{'prop': 'bad 0 = m'}]},
        {'ty': 'def.ind', 'name': 'fst3', 'type': "'a => 'a => 'a", 'rules': [{'prop': 'fst3 x y = x'}]},
        {'ty': 'def.pred', 'name': 'evn', 'type': 'nat => bool', 'rules': [{'name': 'evn_zero', 'prop': 'evn 0'}, {'name': 'evn_step', 'prop': 'evn n --> evn (Suc (Suc n))'}]},
        {'ty': 'type.ind', 'name': 'tree', 'args': ['a'], 'constrs': [{'name': 'Leaf', 'type': "'a tree", 'args': []},
                                                                        {'name': 'Node', 'type': "'a tree => 'a => 'a tree => 'a tree", 'args': ['l', 'v', 'r']}]},
        {'ty': 'type.ind', 'name': 'opt', 'args': ['a'], 'constrs': [{'name': 'Non', 'type': "'a opt", 'args': []}, {'name': 'Som', 'type': "'a => 'a opt", 'args': ['v']}]},
        {'ty': 'def.ax', 'name': 'mystery', 'type': "'a => nat"},
    ]
    # datatypes: every constructor-argument kind, including the type being defined at *another* instance (non-uniform recursion)
    argkinds1 = ["'a", "nat", "'a dt", "bool dt", "('a => 'a) dt", "nat dt", "'a => nat"]
    n = 0
    for k1 in argkinds1:
        for k2 in [None] + argkinds1[:5]:
            args = [k1] + ([k2] if k2 else [])
            items.append({'ty': 'type.ind', 'name': 'dt', 'args': ['a'], 'constrs': [
                {'name': 'DNil', 'type': "'a dt", 'args': []},
                {'name': 'DCons', 'type': ' => '.join([('(%s)' % a if '=>' in a and not a.endswith(' dt') else a) for a in args] + ["'a dt"]), 'args': ['x%d' % i for i in range(len(args))]}]})
    for k1 in ("('a, 'b) dp", "('b, 'a) dp", "('a, 'a) dp", "(nat, 'b) dp", "'a", "'b"):
        for k2 in ("'b", "('b, 'a) dp"):
            items.append({'ty': 'type.ind', 'name': 'dp', 'args': ['a', 'b'], 'constrs': [
                {'name': 'PLeaf', 'type': "'a => ('a, 'b) dp", 'args': ['v']},
                {'name': 'PNode', 'type': "%s => %s => ('a, 'b) dp" % (k1, k2), 'args': ['l', 'r']}]})
    # the same argument name at different types in different constructors
    items += [
        {'ty': 'type.ind', 'name': 'tm', 'args': [], 'constrs': [{'name': 'Lit', 'type': 'nat => tm', 'args': ['n']}, {'name': 'Neg', 'type': 'tm => tm', 'args': ['n']},
                                                               {'name': 'Add', 'type': 'tm => tm => tm', 'args': ['a', 'b']}]},
        {'ty': 'type.ind', 'name': 'rose', 'args': ['a'], 'constrs': [{'name': 'Tip', 'type': "'a => 'a rose", 'args': ['x']}, {'name': 'Fork', 'type': "'a rose => 'a rose => 'a rose", 'args': ['x', 'y']}]},
        {'ty': 'type.ind', 'name': 'tw', 'args': ['a'], 'constrs': [{'name': 'TwA', 'type': "'a => nat => 'a tw", 'args': ['x', 'y']}, {'name': 'TwB', 'type': "nat => 'a => 'a tw", 'args': ['x', 'y']}]},
    ]
    # recursive functions and inductive predicates of a few more shapes
    items += [
        {'ty': 'def.ind', 'name': 'addn', 'type': 'nat => nat => nat', 'rules': [{'prop': 'addn 0 m = m'}, {'prop': 'addn (Suc n) m = Suc (addn n m)'}]},
        {'ty': 'def.ind', 'name': 'poly', 'type': "'a => nat => 'a", 'rules': [{'prop': 'poly x 0 = x'}, {'prop': 'poly x (Suc n) = poly x n'}]},
        {'ty': 'def.ind', 'name': 'badty', 'type': 'nat => nat', 'rules': [{'prop': 'badty 0 = 0'}, {'prop': 'badty (Suc n) = (if badty n then 0 else 1)'}]},
        {'ty': 'def.pred', 'name': 'rel', 'type': "'a => 'a => bool", 'rules': [{'name': 'rel_refl', 'prop': 'rel x x'}, {'name': 'rel_sym', 'prop': 'rel x y --> rel y x'}]},
        {'ty': 'def.pred', 'name': 'le2', 'type': 'nat => nat => bool', 'rules': [{'name': 'le2_0', 'prop': 'le2 0 n'}, {'name': 'le2_S', 'prop': 'le2 m n --> le2 (Suc m) (Suc n)'}]},
    ]
    # rule variables named like the variables the generated cases rule introduces itself (P, _a1, ...)
    items += [
        {'ty': 'def.pred', 'name': 'foo', 'type': 'bool => bool', 'rules': [{'name': 'foo_intro', 'prop': 'P --> foo P'}]},
        {'ty': 'def.pred', 'name': 'foo', 'type': 'bool => bool', 'rules': [{'name': 'foo_intro', 'prop': 'Q --> foo Q'}]},
        {'ty': 'def.pred', 'name': 'foo1', 'type': "'a => bool", 'rules': [{'name': 'foo1_intro', 'prop': "(P::bool) --> foo1 (x::'a)"}]},
        {'ty': 'def.pred', 'name': 'foo2', 'type': "'a => 'a => bool", 'rules': [{'name': 'foo2_intro', 'prop': "foo2 (_a2::'a) _a2"}]},
        {'ty': 'def.pred', 'name': 'foo3', 'type': "nat => nat => bool", 'rules': [{'name': 'foo3_intro', 'prop': "foo3 _a2 (Suc _a1)"}, {'name': 'foo3_b', 'prop': "foo3 _a1 _a2 --> foo3 _a2 _a1"}]},
    ]
    # rules whose printed form needs a type annotation (numerals, empty set): the editor form carries colons inside the proposition
    items += [
        {'ty': 'def.pred', 'name': 'pz', 'type': 'nat => bool', 'rules': [{'name': 'pz_intro', 'prop': '(0::nat) < 1 --> pz 2'}, {'name': 'pz_step', 'prop': 'pz n --> pz (n + 2)'}]},
        {'ty': 'def.pred', 'name': 'fin2', 'type': "'a set => bool", 'rules': [{'name': 'fin2_empty', 'prop': "fin2 (empty_set::'a set)"}, {'name': 'fin2_ins', 'prop': 'fin2 s --> fin2 (insert a s)'}]},
        {'ty': 'def.ind', 'name': 'cz', 'type': "'a => nat", 'rules': [{'prop': "cz (x::'a) = (0::nat)"}]},
        {'ty': 'def', 'name': 'c9', 'type': 'nat', 'prop': 'c9 = (if (0::nat) < 1 then 2 else 3)'},
    ]
    _D['other'] = items
    return items


# ------------------------------------------------------------------ satisfiability of the defining equation

def tvars_of_type(T, acc):
    if T.is_tvar():
        acc.add(T.name)
    elif T.is_tconst():
        for a in T.args:
            tvars_of_type(a, acc)
    return acc


def tvars_of_term(t, acc):
    if t.is_var() or t.is_svar() or t.is_const():
        tvars_of_type(t.T, acc)
    elif t.is_comb():
        tvars_of_term(t.fun, acc)
        tvars_of_term(t.arg, acc)
    elif t.is_abs():
        tvars_of_type(t.var_T, acc)
        tvars_of_term(t.body, acc)
    return acc


def rename_tvars(t, ren):
    """Rename ordinary type variables in a term (independent of Term.subst_type, which only touches schematic ones)."""
    from kernel.type import TVar, TConst
    from kernel.term import Var, SVar, Const, Comb, Abs, Bound

    def ty(T):
        if T.is_tvar():
            return TVar(ren.get(T.name, T.name))
        if T.is_tconst():
            return TConst(T.name, *[ty(a) for a in T.args])
        return T
    if t.is_var():
        return Var(t.name, ty(t.T))
    if t.is_svar():
        return SVar(t.name, ty(t.T))
    if t.is_const():
        return Const(t.name, ty(t.T))
    if t.is_comb():
        return Comb(rename_tvars(t.fun, ren), rename_tvars(t.arg, ren))
    if t.is_abs():
        return Abs(t.var_name, ty(t.var_T), rename_tvars(t.body, ren))
    return t


def close(t):
    from kernel.term import Forall
    for v in reversed(t.get_vars()):
        t = Forall(v, t)
    return t


def consistent(prop, cname, ctype):
    """'sat' | 'unsat' | 'unknown' : is the closed defining equation satisfiable in every finite instance (sizes 1,2)?
    Returns 'unsat' with the offending instance as second component."""
    from vlib.holsmt import Fin, Enc, Unsupported, PY_CONSTS
    from kernel.term import Const
    ctv = sorted(tvars_of_type(ctype, set()))
    alltv = sorted(tvars_of_term(prop, set()))
    extra = [v for v in alltv if v not in ctv]
    closed = close(prop)
    try:
        for csz in itertools.product((1, 2), repeat=len(ctv)):
            sizes = {"'" + v: k for v, k in zip(ctv, csz)}
            insts = []
            for esz in itertools.product((1, 2), repeat=len(extra)):
                ren = {v: '%s_sz%d' % (v, k) for v, k in zip(extra, esz)}
                insts.append(rename_tvars(closed, ren))
                for v, k in zip(extra, esz):
                    sizes["'" + ren[v]] = k
            fin = FinC(2, sizes, cname, ctype)
            s = z3.Solver()
            s.set('timeout', 5000)
            fs = [fin.tr(i) for i in insts]
            for g in fin.side:
                s.add(g)
            for f in fs:
                s.add(f)
            r = str(s.check())
            if r == 'unsat':
                return 'unsat', 'type variables of %s of size %s' % (cname, dict(zip(ctv, csz)))
            if r != 'sat':
                return 'unknown', r
        return 'sat', None
    except Unsupported as e:
        pass
    # infinite types: array encoding, one shot
    try:
        enc = Enc()
        f = enc.tr(closed)
        s = z3.Solver()
        s.set('timeout', 4000)
        for g in enc.side:
            s.add(g)
        s.add(f)
        r = str(s.check())
        if set(enc.used_uninterp) - {cname}:
            return 'unknown', 'other uninterpreted constants'
        return {'sat': 'sat', 'unsat': 'unsat'}.get(r, 'unknown'), 'array encoding over the integers'
    except Exception as e:
        return 'unknown', str(e)[:80]


def FinC(k, sizes, cname, ctype=None):
    """Finite encoding in which the defined constant is an uninterpreted symbol (all others must be interpreted)."""
    from vlib.holsmt import Fin, Unsupported, PY_CONSTS

    class _F(Fin):
        def const(self, h, args, env, envT):
            if h.name == cname and (h.name not in PY_CONSTS or (ctype is not None and h.T == ctype)):
                f = self.symbol(h)
                fT = h.T
                for a in args:
                    f = self.app(fT, f, self.tr(a, env, envT))
                    fT = fT.args[1]
                return f
            return Fin.const(self, h, args, env, envT)
    return _F(k, sizes)


def ind_type(t, env=()):
    from kernel.type import TFun
    if t.is_var() or t.is_svar() or t.is_const():
        return t.T
    if t.is_bound():
        return env[t.n] if t.n < len(env) else None
    if t.is_abs():
        b = ind_type(t.body, (t.var_T,) + env)
        return None if b is None else TFun(t.var_T, b)
    fT, aT = ind_type(t.fun, env), ind_type(t.arg, env)
    if fT is None or aT is None or not fT.is_fun() or fT.args[0] != aT:
        return None
    return fT.args[1]


EXISTING = {}


def check_item(data):
    """-> (kind or None, detail, accepted)"""
    from server import items
    from kernel import theory, extension
    from kernel.type import BoolType
    from logic import basic
    basic.load_theory('nat')          # fresh copy of the theory for every item
    if not EXISTING:
        from kernel.type import BoolType, TFun
        for nm in ('true', 'false', 'conj', 'disj', 'neg', 'implies'):
            if theory.thy.has_term_sig(nm) and not theory.thy.is_overload_const(nm):
                EXISTING[nm] = theory.thy.get_term_sig(nm)
    try:
        item = items.parse_item(dict(data))
    except Exception as e:
        return None, 'parse_item raised %s' % type(e).__name__, False
    if item.error is not None:
        return None, 'refused: %s' % str(item.error)[:60], False
    try:
        exts = item.get_extension()
    except Exception as e:
        return 'item-extension-exception', 'accepted item %s: get_extension raised %s: %s' % (data, type(e).__name__, str(e)[:80]), True
    # well-typedness over the extended signature
    try:
        theory.thy.unchecked_extend(exts)
    except Exception as e:
        return None, 'extension refused by the theory: %s' % str(e)[:60], False
    for ext in exts:
        if ext.is_theorem():
            for t in list(ext.th.hyps) + [ext.th.prop]:
                try:
                    theory.thy.check_term(t)
                    ok = t.checked_get_type() == BoolType and ind_type(t) == BoolType
                except Exception as e:
                    ok = False
                if not ok:
                    return 'item-illtyped-extension', 'accepted item %s generates the theorem %s: %r, which is not well-typed over the extended signature' % (data['name'], ext.name, t), True
        elif ext.is_constant():
            try:
                theory.thy.check_type(ext.T)
            except Exception:
                return 'item-illtyped-extension', 'accepted item %s declares constant %s at an ill-formed type %s' % (data['name'], ext.name, ext.T), True
    # export / edit round trip (structural; this is how server.monitor compares items): on the theory *before* the extension
    kind_rt, why_rt = round_trip(data, item)
    if kind_rt:
        return kind_rt, why_rt, True
    if data['ty'] == 'def' and data['name'] in EXISTING and item.type == EXISTING[data['name']]:
        # a second "definition" of a constant the theory already has (not an overloaded instance): the equation is installed as a
        # theorem about the existing constant, so it must at least be true of it
        from vlib.holsmt import Oracle
        v = Oracle(timeout_ms=3000).valid([], close(item.prop))
        if v.status == 'invalid':
            return 'def-inconsistent', 'definition item `%s :: %s` with `%s` is accepted and installed although %s is an existing constant of the theory and the equation is false of it (%s)' % (
                data['name'], data['type'], data['prop'], data['name'], v.how), True
        return None, 'fine', True
    if data['ty'] == 'def':
        r, why = consistent(item.prop, item.name, item.type)
        if r == 'unsat':
            return 'def-inconsistent', 'definition `%s :: %s` with `%s` is accepted (error is None) but its defining equation is unsatisfiable (%s)' % (data['name'], data['type'], data['prop'], why), True
        if r == 'unknown':
            return '_unknown', why, True
    if data['ty'] in ('def.pred', 'def.ind'):
        # the generated theorems (introduction rules and the cases rule / the recursion equations) are installed as axioms about the
        # new constant: some interpretation of the constant must satisfy all of them together
        from kernel.term import And
        ths = [close(ext.th.prop) for ext in exts if ext.is_theorem()]
        if ths:
            r, why = consistent(And(*ths) if len(ths) > 1 else ths[0], item.name, item.type)
            if r == 'unsat':
                try:
                    theory.thy.unchecked_extend(exts)        # (the round trip reloaded the theory) for printing only
                except Exception:
                    pass
                return 'def-inconsistent', 'item %s `%s :: %s` with rules %s is accepted, but the theorems it installs (%s) have no model (%s)' % (
                    data['ty'], data['name'], data['type'], [r_['prop'] for r_ in data['rules']], '; '.join(str(ext.th.prop) for ext in exts if ext.is_theorem()), why), True
            if r == 'unknown':
                return '_unknown', why, True
    return None, 'fine', True


def round_trip(data, item):
    """parse_item(export_json(item)) == item and parse_edit(get_display(item)) == item, each on a fresh copy of the theory."""
    from server import items
    from logic import basic
    from syntax.settings import global_setting
    for how in ('export_json', 'get_display'):
        basic.load_theory('nat')
        try:
            it0 = items.parse_item(dict(data))
            # as server.monitor does: print in the extended theory, parse back in the theory before the extension
            from kernel import theory
            theory.thy.unchecked_extend(it0.get_extension())
            if how == 'export_json':
                with global_setting(unicode=True, highlight=False):
                    js = it0.export_json()
                basic.load_theory('nat')
                it2 = items.parse_item(js)
            else:
                with global_setting(unicode=True, highlight=False):
                    disp = it0.get_display()
                basic.load_theory('nat')
                it2 = items.parse_edit(disp)
        except NotImplementedError:
            continue
        except Exception as e:
            return 'item-roundtrip', 'item %s: %s then parsing back raises %s: %s' % (data.get('name'), how, type(e).__name__, str(e)[:80])
        if it2.error is not None or it2 != it0:
            return 'item-roundtrip', 'item %s: %s then parsing back gives a different item (%s)' % (data, how, 'error %s' % str(it2.error)[:60] if it2.error else 'not equal')
    return None, None


def gen_def(seed, j):
    """A seeded definition item with a right-hand side from a recursive grammar (depth <= 3) over the adversarial atoms."""
    rnd = random.Random('c11g-%s-%s' % (seed, j))
    name, T, lhs, atoms = rnd.choice([
        ('c1', "'a => bool", 'c1 x', ["x = x", "c1 x", "(!u::'a. c1 u)", "(?u::'a. ~(c1 u))", "(!u::'b. !v::'b. u = v)", "x = y", "(?u::'a. ~(u = x))", "true", "false"]),
        ('c2', "'a => 'a => bool", 'c2 x y', ["x = y", "c2 y x", "c2 x x", "(!u::'a. c2 u y)", "(?u::'b. !v::'b. u = v)", "c2 y y", "y = x", "(?u::'a. c2 x u)"]),
        ('c0', "bool", 'c0', ["true", "c0", "(!u::'b. !v::'b. u = v)", "(p::bool)", "(!u::'a. u = u)", "(?u::'c. ?v::'c. ~(u = v))"])])

    def g(d):
        if d == 0 or rnd.random() < 0.3:
            return rnd.choice(atoms)
        k = rnd.choice(['&', '|', '-->', '<-->', '~'])
        if k == '~':
            return '~(%s)' % g(d - 1)
        return '(%s) %s (%s)' % (g(d - 1), k, g(d - 1))
    return {'ty': 'def', 'name': name, 'type': T, 'prop': "%s <--> (%s)" % (lhs, g(3))}


def units(tier, seed):
    us = [('def', i) for i in range(len(def_items()))] + [('other', i) for i in range(len(other_items()))]
    us += [('gen', (seed, j)) for j in range(200 if tier == 'quick' else 1500)]
    random.Random(seed).shuffle(us)
    return us




def run_unit(u):
    out = {'evals': 0, 'keys': set(), 'cex': [], 'samples': [], 'inconclusive': 0, 'stats': {}}
    data = gen_def(*u[1]) if u[0] == 'gen' else (def_items() if u[0] == 'def' else other_items())[u[1]]
    out['evals'] += 1
    if os.environ.get('VERIF_TWIN'):
        out['cex'].append({'kind': 'twin', 'part': u[0], 'i': u[1]})
        out['keys'] = []
        return out
    kind, detail, accepted = check_item(data)
    if accepted:
        out['keys'].add('%s|%s' % u)
        out['stats']['accepted_items'] = 1
    if kind == '_unknown':
        out['inconclusive'] += 1
    elif kind:
        out['cex'].append({'kind': kind, 'part': u[0], 'i': u[1], 'detail': detail})
    out['samples'].append({'item': {k: v for k, v in data.items() if k in ('ty', 'name', 'type', 'prop')}, 'accepted': accepted})
    out['keys'] = list(out['keys'])
    return out


def replay(c):
    if c['kind'] == 'twin':
        return True, 'twin'
    data = gen_def(*c['i']) if c['part'] == 'gen' else (def_items() if c['part'] == 'def' else other_items())[c['i']]
    kind, detail, _ = check_item(data)
    return kind == c['kind'], detail
