"""C06 -- goals discharged through Z3 / SymPy are valid HOL statements.

Translation validation, goal by goal: the real bridge (z3wrapper.solve = norm_term + convert + solve_core + z3) gives its
verdict; an independent, guard-correct encoding of the same HOL goal (holsmt: nat variables and nat binders range over
non-negative integers, truncated subtraction, x/0 = 0, function equality extensional, finite models for type variables)
is decided by z3 again.  "bridge accepts" & "HOL has a counter-model" is a disagreement; the counter-model is confirmed
by the independent evaluator (quantifier-free / finite) or by a second solver (cvc5) before it is reported, and the
real z3wrapper.solve / Z3Macro.eval / SymPyMacro.eval is re-run natively in the replay.
SymPy cannot be executed symbolically: it is a black box on enumerated goals; only the semantic side is solver-decided.
"""
import itertools
import os
import random
from fractions import Fraction

PID = 'C06'
LEVEL = 'translation_validation'
LEVEL_TEXT = ('Per goal, the verdict of the real Z3 bridge is validated against an independent guard-correct SMT encoding of HOL semantics decided by z3 '
              '(counter-models confirmed by an independent evaluator or by cvc5); SymPy steps are validated the same way as a black box. '
              'The goal family is enumerated up to a stated bound; the semantic quantifiers (all variable values, all models) are solver-decided.')
LEVEL_NOTE = 'trusts z3/cvc5 and the holsmt encoding (validated against library theorems); goals outside the enumerated family are outside the claim; SymPy internals are not modelled'
TECHNIQUE = 'translation validation: real bridge verdict vs independent guard-correct SMT encoding (z3, cvc5 confirmation)'
FUNCTIONS = ['prover.z3wrapper:convert/convert_type/convert_const/norm_term/solve_core/solve', 'prover.z3wrapper:Z3Macro.eval', 'prover.fologic:simplify',
             'prover.sympywrapper:convert/solve_goal/solve_with_interval/SymPyMacro.eval']
ASSUMPTIONS = [
    'goal family: quantifier wrappers (forall/exists, negated, as hypothesis, nested) x bodies over nat/int/real/type-variable/bool; arithmetic with nat subtraction, division, max/min/abs, IF, of_nat; '
    'function and set equalities; interval-membership premises; one variable name at two types in different parts of a goal; goals z3 leaves undecided (recurrence / monotonicity / additivity / involution premises over f : nat=>nat, int=>int)',
    'a disagreement is reported only with a confirmed counter-model (independent evaluator, finite model, or cvc5 agreeing with z3); otherwise it is counted inconclusive',
    'SymPy: polynomial/rational goals in x (and y) with numerals in [-2,3], closed/open interval premises; SymPy itself is a black box; goals with exp / sin / cos are judged only by exact evaluation at x = 0 (otherwise inconclusive)',
    'z3wrapper.check_z3 must be True',
    'a global z3 soft timeout of 4 s is set in the harness process (the bridge sets none); a goal the bridge cannot decide in that time counts as rejected',
]
RULE = ('one evaluation (= one "program") = one HOL goal pushed through the real bridge; distinct = distinct goals the bridge accepted; non-trivial = accepted by the bridge '
        '(its validity was then decided independently)')
EXPLANATION = 'bridge accepts => independent encoding must be valid; the second encoding differs exactly in the places the property names (nat guards, truncation, x/0, extensional equality)'
BUDGET_S = {'quick': 240, 'thorough': 900}


def bounds(tier):
    return {'z3_goals': 'all templates (see goal_family) ' + ('' if tier == 'thorough' else '; depth-2 propositional combinations sampled 1500'),
            'sympy_transcendental_denominators': '%d goals d / d ~ c under an interval premise, d one of 12 expressions in x, exp x, sin x, cos x; refuted only by exact evaluation at x = 0' % len(sympy_trans_goals()),
            'z3_goal_sequences': 'every family goal that prints alike at int / real and at nat, decided in that order in one process (verdicts must not carry over between goals)',
            'z3_undecided_goals': '%d goals with a quantified premise over an uninterpreted f (6 premises x 7 conclusions x nat/int%s); invalid ones refuted by instantiating f with one of 8 concrete functions' % (
                (168, ', as implication and as sequent') if tier == 'thorough' else (42, ', every second one')),
            'sympy_goals': '%d seeded + fixed list + systematic interval end-point family (3 intervals x closed/open x 5 relations x 21 polynomials) + ground nat/int subtraction goals' % (600 if tier == 'quick' else 6000)}


def setup(tier, seed):
    from data import real  # noqa
    from logic import basic
    basic.load_theory('interval_arith')
    from prover import z3wrapper, sympywrapper  # noqa
    import z3
    # the bridge creates its solver without a time limit; a global soft limit makes long queries come back
    # `unknown`, which the bridge treats as "not solved" (fewer acceptances to validate, never more)
    z3.set_param('timeout', 4000)


_G = {}


def z3_goals():
    """List of (label, hyps list, goal term)."""
    if 'z3' in _G:
        return _G['z3']
    from kernel.type import NatType, IntType, RealType, BoolType, TVar, TFun, TConst
    from kernel import term as T
    from kernel.term import Var, Eq, Not, And, Or, Implies, Forall, Exists, Number, Const, true, false
    out = []
    Ta = TVar('a')

    def num(ty, n):
        return Number(ty, n)
    for ty, tn in ((NatType, 'nat'), (IntType, 'int'), (RealType, 'real')):
        x, y = Var('x', ty), Var('y', ty)
        zero, one, two = num(ty, 0), num(ty, 1), num(ty, 2)
        f = Var('f', TFun(ty, NatType))
        g = Var('g', TFun(ty, ty))
        bodies = [
            ('x+1=0', Eq(x + one, zero)), ('x+1>0', x + one > zero), ('x>=0', x >= zero), ('x<0', x < zero), ('x-1<x', x - one < x), ('x-1+1=x', Eq(x - one + one, x)),
            ('x*x>=0', x * x >= zero), ('2x=1', Eq(two * x, one)), ('x-y+y=x', Eq(x - y + y, x)), ('x-y>=0', x - y >= zero), ('x<=y|y<=x', Or(x <= y, y <= x)),
            ('max', Eq(Const('max', TFun(ty, ty, ty))(x, zero), x)), ('min', Eq(Const('min', TFun(ty, ty, ty))(x, zero), zero)),
            ('f x>=0', f(x) >= Number(NatType, 0)), ('g x = g x', Eq(g(x), g(x))), ('g(x-1)=g x', Eq(g(x - one), g(x))),
            ('if', T.Const('IF', TFun(BoolType, ty, ty, ty))(x >= zero, x, zero - x) >= zero),
            ('y<x', y < x), ('x+y=0', Eq(x + y, zero)), ('x=y', Eq(x, y)),
            ('x+y+1=0', Eq(x + y + one, zero)), ('x+y<y', x + y < y), ('x+y+1>y', x + y + one > y),
        ]
        if tn != 'nat':
            bodies.append(('abs', Const('abs', TFun(ty, ty))(x) >= zero))
            bodies.append(('-x<=0', T.uminus(ty)(x) <= zero))
        if tn == 'real':
            bodies += [('x/x=1', Eq(x / x, one)), ('x/0=0', Eq(x / zero, zero)), ('x*(1/x)=1', Eq(x * (one / x), one)), ('x/2+x/2=x', Eq(x / two + x / two, x))]
        if tn == 'nat':
            r0 = Number(RealType, 0)
            bodies += [('of_nat x>=0', T.of_nat(RealType)(x) >= r0), ('of_nat(x-1)', Eq(T.of_nat(RealType)(x - one) + Number(RealType, 1), T.of_nat(RealType)(x))),
                       ('of_nat x=1/2', Eq(T.of_nat(RealType)(x), Number(RealType, Fraction(1, 2))))]
        for lab, b in bodies:
            has_y = any(v.name == 'y' for v in b.get_vars())
            L = '%s:%s' % (tn, lab)
            out.append((L + ' free', [], b))
            out.append((L + ' neg free', [], Not(b)))
            if not has_y:
                out.append((L + ' all', [], Forall(x, b)))
                out.append((L + ' ex', [], Exists(x, b)))
                out.append((L + ' ~all', [], Not(Forall(x, b))))
                out.append((L + ' ~ex', [], Not(Exists(x, b))))
                out.append((L + ' all|-false', [], Implies(Forall(x, b), false)))
                out.append((L + ' ex|-false', [], Implies(Exists(x, b), false)))
                out.append((L + ' all|-inst0', [], Implies(Forall(x, b), b.subst(T.Inst()) if False else Forall(x, b))))
                out.append((L + ' hyp all', [Forall(x, b)], false))
                out.append((L + ' hyp ex', [Exists(x, b)], false))
                out.append((L + ' all-->ex', [], Implies(Forall(x, b), Exists(x, b))))
            else:
                out.append((L + ' all all', [], Forall(x, Forall(y, b))))
                out.append((L + ' all ex', [], Forall(x, Exists(y, b))))
                out.append((L + ' ex all', [], Exists(x, Forall(y, b))))
                out.append((L + ' ex ex', [], Exists(x, Exists(y, b))))
                out.append((L + ' ~(all ex)', [], Not(Forall(x, Exists(y, b)))))
                out.append((L + ' (ex all)|-false', [], Implies(Exists(x, Forall(y, b)), false)))
                # blocks of same-kind binders in negative positions
                out.append((L + ' ~(all all)', [], Not(Forall(x, Forall(y, b)))))
                out.append((L + ' ~(ex ex)', [], Not(Exists(x, Exists(y, b)))))
                out.append((L + ' (all all)|-false', [], Implies(Forall(x, Forall(y, b)), false)))
                out.append((L + ' hyp all all', [Forall(x, Forall(y, b))], false))
                out.append((L + ' (all all)-->(ex ex)', [], Implies(Forall(y, Forall(x, b)), Exists(y, Exists(x, b)))))
    # uninterpreted type / functions / sets
    a, b_ = Var('a', Ta), Var('b', Ta)
    F, G = Var('F', TFun(Ta, Ta)), Var('G', TFun(Ta, Ta))
    P, Q = Var('P', TFun(Ta, BoolType)), Var('Q', TFun(Ta, BoolType))
    S, S2 = Var('S', TConst('set', Ta)), Var('S2', TConst('set', Ta))
    mem = lambda e, s: Const('member', TFun(Ta, TConst('set', Ta), BoolType))(e, s)
    out += [
        ('fun eq |- false', [], Implies(Eq(F, G), false)), ('fun eq hyp', [Eq(F, G)], false), ('fun eq cong', [], Implies(Eq(F, G), Eq(F(a), G(a)))),
        ('fun neq', [], Not(Eq(F, G))), ('fun refl', [], Eq(F, F)), ('pred eq |- false', [], Implies(Eq(P, Q), false)),
        ('all P --> P a', [], Implies(Forall(a, P(a)), P(b_))), ('P a --> all P', [], Implies(P(a), Forall(b_, P(b_)))),
        ('ex P --> P a', [], Implies(Exists(a, P(a)), P(b_))), ('set eq |- false', [], Implies(Eq(S, S2), false)), ('set ext', [], Implies(Forall(a, Eq(mem(a, S), mem(a, S2))), Eq(S, S2))),
        ('set neq', [], Not(Eq(S, S2))), ('a=b', [], Eq(a, b_)), ('a=b|-F a = F b', [], Implies(Eq(a, b_), Eq(F(a), F(b_)))), ('F a=F b|-a=b', [], Implies(Eq(F(a), F(b_)), Eq(a, b_))),
    ]
    # interval membership premises
    xr = Var('x', RealType)
    ci = lambda l, h: Const('real_closed_interval', TFun(RealType, RealType, TConst('set', RealType)))(Number(RealType, l), Number(RealType, h))
    oi = lambda l, h: Const('real_open_interval', TFun(RealType, RealType, TConst('set', RealType)))(Number(RealType, l), Number(RealType, h))
    memr = lambda e, s: Const('member', TFun(RealType, TConst('set', RealType), BoolType))(e, s)
    for lab, I in (('[0,1]', ci(0, 1)), ('(0,1)', oi(0, 1)), ('[-1,1]', ci(-1, 1))):
        for gl, gb in (('x>=0', xr >= Number(RealType, 0)), ('x>0', xr > Number(RealType, 0)), ('x*x<=1', xr * xr <= Number(RealType, 1)), ('1/x>=1', Number(RealType, 1) / xr >= Number(RealType, 1)),
                       ('x/x=1', Eq(xr / xr, Number(RealType, 1))), ('1-x*x>=0', Number(RealType, 1) - xr * xr >= Number(RealType, 0))):
            out.append(('interval %s %s' % (lab, gl), [], Implies(memr(xr, I), gb)))
    # sibling quantifiers binding the same name, with casts of the bound variable (translation state keyed by variable name)
    n, m = Var('n', NatType), Var('m', NatType)
    r = Var('r', RealType)
    R = lambda v: Number(RealType, v)
    cast = T.of_nat(RealType)
    sib = [('of_nat n=r', Eq(cast(n), r)), ('of_nat n=r+1', Eq(cast(n), r + R(1))), ('of_nat n>r', cast(n) > r), ('2*of_nat n=r', Eq(R(2) * cast(n), r)),
           ('n=m', Eq(n, m)), ('n+1=m', Eq(n + Number(NatType, 1), m)), ('of_nat n=of_nat m+1/2', Eq(cast(n), cast(m) + R(Fraction(1, 2))))]
    for (l1, b1) in sib:
        for (l2, b2) in sib:
            for qn, Q1, Q2 in (('ex,ex', Exists, Exists), ('all,ex', Forall, Exists), ('ex,all', Exists, Forall)):
                q1, q2 = Q1(n, b1), Q2(n, b2)
                L = 'siblings %s [%s] [%s]' % (qn, l1, l2)
                out.append((L + ' -->~', [], Implies(q1, Not(q2))))
                out.append((L + ' &|-false', [], Implies(And(q1, q2), false)))
                out.append((L + ' -->', [], Implies(q1, q2)))
    # one name at two types, in different parts of the goal (assumption / conclusion are translated separately)
    xi, xn, xr2, yn = Var('x', IntType), Var('x', NatType), Var('x', RealType), Var('y', NatType)
    Mn = lambda ty: Const('min', TFun(ty, ty, ty))
    clash = [('int min / nat sub', Not(Eq(Mn(IntType)(xi, Number(IntType, 0)), Number(IntType, 0))), Not(xn - yn >= Number(NatType, 0))),
             ('int x<0 / nat x>=0', xi < Number(IntType, 0), Not(xn >= Number(NatType, 0))),
             ('nat x>=0 / int x>=0', xn >= Number(NatType, 0), xi >= Number(IntType, 0)),
             ('real 2x=1 / int', Eq(Number(RealType, 2) * xr2, Number(RealType, 1)), Not(Eq(xi, xi))),
             ('nat x-1+1=x / int x>0', Eq(xn - Number(NatType, 1) + Number(NatType, 1), xn), xi > Number(IntType, 0))]
    for lab, A, C in clash:
        out.append(('clash ' + lab + ' imp', [], Implies(A, C)))
        out.append(('clash ' + lab + ' hyp', [A], C))
        out.append(('clash ' + lab + ' imp2', [], Implies(A, Implies(Eq(yn, yn), C))))
        out.append(('clash ' + lab + ' conj', [], Implies(And(A, Not(C)), false)))
    _G['z3'] = out
    return out


def z3u_goals(tier='quick'):
    """Goals z3 typically cannot decide (quantified premises over an uninterpreted function with arithmetic): the bridge must
    treat `unknown` as "not solved".  Invalid members are refuted by instantiating f with a concrete function (holsmt templates)."""
    key = 'z3u-' + tier
    if key in _G:
        return _G[key]
    from kernel.type import NatType, IntType, TFun
    from kernel.term import Var, Eq, Implies, Forall, Exists, Number
    out = []
    for ty, tn in ((NatType, 'nat'), (IntType, 'int')):
        f = Var('f', TFun(ty, ty))
        x, y = Var('x', ty), Var('y', ty)
        N = lambda k: Number(ty, k)
        prem = [('rec+1', Forall(x, Eq(f(x + N(1)), f(x) + N(1)))), ('rec+2', Forall(x, Eq(f(x + N(1)), f(x) + N(2)))), ('mono', Forall(x, f(x + N(1)) > f(x))),
                ('wmono', Forall(x, f(x) <= f(x + N(1)))), ('additive', Forall(x, Forall(y, Eq(f(x + y), f(x) + f(y))))), ('involution', Forall(x, Eq(f(f(x)), x)))]
        concl = [('f0=0', Eq(f(N(0)), N(0))), ('f1=1', Eq(f(N(1)), N(1))), ('f2=f0+2', Eq(f(N(2)), f(N(0)) + N(2))), ('f1<=f0', f(N(1)) <= f(N(0))), ('f0>0', f(N(0)) > N(0)),
                 ('f0<f2', f(N(0)) < f(N(2))), ('ex x. f x=0', Exists(x, Eq(f(x), N(0))))]
        for pl, p in prem:
            for cl, c in concl:
                out.append(('undecided %s: %s --> %s' % (tn, pl, cl), [], Implies(p, c)))
                if tier == 'thorough':
                    out.append(('undecided %s: %s |- %s' % (tn, pl, cl), [p], c))
    if tier == 'quick':
        out = out[::2]
    _G[key] = out
    return out


def z3_order_groups():
    """Goals of the family that print alike at different numeric types, grouped: [(label, [(type name, hyps, goal), ...])] with the
    integer / real version (often valid) before the natural-number one -- a bridge that remembers verdicts by the printed goal
    would carry the first verdict over."""
    if 'z3o' in _G:
        return _G['z3o']
    groups = {}
    for lab, hyps, goal in z3_goals():
        if ':' in lab and lab.split(':', 1)[0] in ('nat', 'int', 'real') and not hyps:
            tn, rest = lab.split(':', 1)
            groups.setdefault(rest, {})[tn] = (hyps, goal)
    out = []
    for rest in sorted(groups):
        g = groups[rest]
        if 'nat' in g and ('int' in g or 'real' in g):
            seq = [(tn, g[tn][0], g[tn][1]) for tn in ('int', 'real', 'nat') if tn in g]
            if len({str(x[2]) for x in seq}) < len(seq):        # at least two of them print identically
                out.append((rest, seq))
    _G['z3o'] = out
    return out


def run_order_group(i, out):
    rest, seq = z3_order_groups()[i]
    for k, (tn, hyps, goal) in enumerate(seq):
        check_z3_goal('%s:%s (after %s)' % (tn, rest, [x[0] for x in seq[:k]]), hyps, goal, out, {'part': 'z3o', 'index': i, 'k': k})


def prop_combos(rnd, n):
    """Propositional combinations of two family goals (positive and negated positions)."""
    from kernel.term import And, Or, Implies, Not
    base = z3_goals()
    res = []
    for _ in range(n):
        (l1, h1, g1), (l2, h2, g2) = rnd.choice(base), rnd.choice(base)
        if h1 or h2:
            continue
        op = rnd.choice(['and', 'or', 'imp', 'nimp', 'norand'])
        t = {'and': And(g1, g2), 'or': Or(g1, g2), 'imp': Implies(g1, g2), 'nimp': Not(Implies(g1, g2)), 'norand': Not(Or(g1, Not(g2)))}[op]
        res.append(('%s(%s ; %s)' % (op, l1, l2), [], t))
    return res


ORACLE = None


def oracle():
    global ORACLE
    if ORACLE is None:
        from vlib.holsmt import Oracle
        ORACLE = Oracle(timeout_ms=3000, second_solver=True)
    return ORACLE


def bridge_z3(hyps, goal):
    """Verdict of the real bridge: True = the z3 step would accept."""
    from prover import z3wrapper
    from kernel.term import Implies
    try:
        return bool(z3wrapper.solve(Implies(*(list(hyps) + [goal]))))
    except Exception:
        return False


def check_z3_goal(label, hyps, goal, out, rec):
    out['evals'] += 1
    acc = bridge_z3(hyps, goal)
    if not acc:
        return
    out['keys'].add('z3|' + label)
    if os.environ.get('VERIF_TWIN'):
        out['cex'].append(dict(rec, kind='twin'))
        return
    v = oracle().valid(hyps, goal)
    out['stats']['disagreements_examined'] = out['stats'].get('disagreements_examined', 0) + (1 if v.status != 'valid' else 0)
    if v.status == 'invalid':
        out['cex'].append(dict(rec, kind='z3-accepts-invalid', label=label,
                               detail='z3wrapper.solve accepts %s%s, but it is not valid in HOL: counter-model via %s %s' % (
                                   ('%s |- ' % ', '.join(map(str, hyps))) if hyps else '', goal, v.how, v.model)))
    elif v.status == 'unknown':
        out['inconclusive'] += 1
        out['stats'].setdefault('inconclusive_labels', []).append(label)


# ------------------------------------------------------------------ SymPy

def sympy_goals(rnd, n):
    from kernel.type import RealType, TFun, TConst, BoolType
    from kernel.term import Var, Eq, Not, Number, Const, Nat
    from kernel import term as T
    x, y = Var('x', RealType), Var('y', RealType)
    N = lambda v: Number(RealType, v)

    def expr(d):
        if d == 0 or rnd.random() < 0.3:
            return rnd.choice([x, x, y, N(0), N(1), N(2), N(-1), N(Fraction(1, 2)), N(3)])
        op = rnd.choice(['plus', 'minus', 'times', 'divides', 'pow', 'uminus'])
        if op == 'pow':
            return T.nat_power(RealType)(expr(d - 1), Nat(rnd.choice([0, 1, 2])))
        if op == 'uminus':
            return T.uminus(RealType)(expr(d - 1))
        return getattr(T, op)(RealType)(expr(d - 1), expr(d - 1))
    fixed = [
        ([], Not(Eq(x * (x + N(1)), x * x + x))), ([], Eq(x / x, N(1))), ([], Eq(x * (N(1) / x), N(1))), ([], Not(Eq(x, y))), ([], Eq(x + y, y + x)),
        ([], Not(Eq(N(2) * x, x + x))), ([], Eq((x + N(1)) * (x + N(1)), x * x + N(2) * x + N(1))), ([], Not(Eq(x - x, N(0)))), ([], N(1) / N(0) >= N(1)), ([], Eq(N(0) / N(0), N(1))),
    ]
    ci = lambda l, h: Const('real_closed_interval', TFun(RealType, RealType, TConst('set', RealType)))(N(l), N(h))
    oi = lambda l, h: Const('real_open_interval', TFun(RealType, RealType, TConst('set', RealType)))(N(l), N(h))
    memr = lambda e, s: Const('member', TFun(RealType, TConst('set', RealType), BoolType))(e, s)
    # divisions inside divisors, negative powers (hidden denominators)
    rpow = lambda a, b: Const('power', TFun(RealType, RealType, RealType))(a, b)
    hidden = [Eq(N(1) / (x / x), N(1)), N(1) / (x / x) > N(0), Eq(x / (x / x), x), Eq(N(1) / (N(1) / x), x), Eq((x + N(1)) / ((x * x) / x), (x + N(1)) / x), Eq(N(2) / (x / (x * N(2))), N(4)),
              Eq(x * rpow(x, N(-1)), N(1)), Eq(rpow(x, N(-1)) * x, N(1)), Eq(rpow(x, N(-2)) * x * x, N(1)), Eq(T.nat_power(RealType)(x, Nat(0)), N(1)), Eq(x * (N(1) / x) * y, y)]
    for g in hidden:
        fixed.append(([], g))
        for I in (ci(-1, 1), ci(0, 1)):
            fixed.append(([memr(x, I)], g))
    for I in (ci(0, 1), oi(0, 1), ci(-1, 1), ci(-1, 0)):
        for g in (x / x >= N(1), Not(Eq(x / x, N(0))), N(1) / x >= N(1), x * x >= N(0), N(1) - x * x >= N(0), Not(Eq(x * x, x)), x * (N(1) / x) > N(0), Not(Eq(x, N(0)))):
            fixed.append(([memr(x, I)], g))
    goals = list(fixed)
    for _ in range(n):
        a, b = expr(2), expr(2)
        k = rnd.randrange(6)
        g = [Eq(a, b), Not(Eq(a, b)), a >= b, a > b, a <= b, a < b][k]
        if rnd.random() < 0.5:
            I = rnd.choice([ci(0, 1), oi(0, 1), ci(-1, 1), ci(1, 2), oi(-1, 0)])
            goals.append(([memr(x, I)], g))
        else:
            goals.append(([], g))
    return goals


def sympy_endpoint_goals():
    """Interval-premise goals whose truth is decided at or next to an end point: for each closed/open interval [l,h],
    x ~ c and (x - r1) * (r2 - x) ~ 0 and (x - r) ^ 2 ~ 0 for c, r among l, h, the midpoint and points just outside,
    ~ in > >= < <= and their equational forms."""
    from kernel.type import RealType, TFun, TConst, BoolType
    from kernel.term import Var, Eq, Not, Number, Const, Nat
    from kernel import term as T
    x = Var('x', RealType)
    N = lambda v: Number(RealType, v)
    mk = lambda nm, l, h: Const(nm, TFun(RealType, RealType, TConst('set', RealType)))(N(l), N(h))
    memr = lambda e, s: Const('member', TFun(RealType, TConst('set', RealType), BoolType))(e, s)
    rels = [lambda a, b: a > b, lambda a, b: a >= b, lambda a, b: a < b, lambda a, b: a <= b, lambda a, b: Not(Eq(a, b))]
    goals = []
    for (l, h) in ((0, 1), (-1, 1), (1, 3)):
        for nm in ('real_closed_interval', 'real_open_interval'):
            prem = memr(x, mk(nm, l, h))
            pts = [l, h, Fraction(l + h, 2), l - 1, h + 1]
            for c in pts:
                for r in rels:
                    goals.append(([prem], r(x, N(c))))
            for r1 in (l, h, l - 1):
                for r2 in (h, l, h + 1):
                    for r in rels:
                        goals.append(([prem], r((x - N(r1)) * (N(r2) - x), N(0))))
            for r0 in (l, h, Fraction(l + h, 2)):
                for r in rels:
                    goals.append(([prem], r(T.nat_power(RealType)(x - N(r0), Nat(2)), N(0))))
            for r in rels:
                goals.append(([prem], r(N(h * h) - x * x, N(0))))
    # ground goals over nat / int numerals: natural subtraction truncates
    from kernel.type import NatType, IntType
    for Ty in (NatType, IntType):
        M = lambda v: Number(Ty, v)
        for a in range(4):
            for b in range(4):
                for c in range(3):
                    for t, tv, zv in ((M(a) - M(b) + M(c), max(a - b, 0) + c, a - b + c), ((M(a) - M(b)) * M(c), max(a - b, 0) * c, (a - b) * c),
                                      (M(a) - (M(b) - M(c)), max(a - max(b - c, 0), 0), a - (b - c))):
                        for v in sorted({tv, max(zv, 0)}):
                            goals += [([], Eq(t, M(v))), ([], Not(Eq(t, M(v)))), ([], t > M(v)), ([], t <= M(v))]
    return goals


def bridge_sympy(hyps, goal):
    from prover import sympywrapper
    from kernel.thm import Thm
    from vlib.symx import call_with_budget, NonTermination
    import io
    import contextlib
    try:
        with contextlib.redirect_stdout(io.StringIO()):
            th = call_with_budget(sympywrapper.SymPyMacro().eval, 20.0, goal, [Thm(h, h) for h in hyps])
        return th
    except (NonTermination, Exception):
        return None


def check_sympy_goal(hyps, goal, out, rec):
    out['evals'] += 1
    th = bridge_sympy(hyps, goal)
    if th is None:
        return
    out['keys'].add('sympy|%s|%s' % (hyps, goal))
    if os.environ.get('VERIF_TWIN'):
        out['cex'].append(dict(rec, kind='twin'))
        return
    if th.prop != goal or any(h not in hyps for h in th.hyps):
        out['cex'].append(dict(rec, kind='sympy-other-sequent', detail='SymPyMacro.eval returned %s for goal %s' % (th, goal)))
        return
    v = oracle().valid(hyps, goal)
    if v.status == 'invalid':
        out['cex'].append(dict(rec, kind='sympy-accepts-invalid', detail='SymPyMacro.eval accepts %s%s, which fails for %s' % (
            ('%s |- ' % ', '.join(map(str, hyps))) if hyps else '', goal, v.model)))
    elif v.status == 'unknown':
        out['inconclusive'] += 1


# ------------------------------------------------------------------ SymPy goals with transcendental denominators

def sympy_trans_goals():
    """([premise], goal): quotients whose denominator is transcendental in the interval variable (with and without a zero inside the
    interval).  The oracle for these is a point refutation: the goal evaluated exactly at x = 0 (exp 0 = 1, sin 0 = 0, cos 0 = 1,
    log 1 = 0, t / 0 = 0) while the premise holds there."""
    if 'trans' in _G:
        return _G['trans']
    from kernel.type import RealType, TFun, TConst, BoolType
    from kernel.term import Var, Number, Const, Eq, Not
    x = Var('x', RealType)
    N = lambda v: Number(RealType, v)
    fn = lambda nm: Const(nm, TFun(RealType, RealType))
    mk = lambda nm, l, h: Const(nm, TFun(RealType, RealType, TConst('set', RealType)))(N(l), N(h))
    memr = lambda e, s_: Const('member', TFun(RealType, TConst('set', RealType), BoolType))(e, s_)
    ex, sn, cs = fn('exp')(x), fn('sin')(x), fn('cos')(x)
    denoms = [x + ex - N(1), x - sn, sn, ex - N(1), x * ex, ex, cs, ex + N(1), sn + N(2), x + sn, cs - N(1), N(2) * x - sn]
    out = []
    for (l, h) in ((-1, 1), (0, 1), (Fraction(1, 2), 1)):
        for nm in ('real_closed_interval', 'real_open_interval'):
            prem = memr(x, mk(nm, l, h))
            for d in denoms:
                out += [([prem], d / d > N(0)), ([prem], d / d >= N(1)), ([prem], Eq(d / d, N(1))), ([prem], Not(Eq(d / d, N(0)))), ([prem], Eq(N(1) / d * d, N(1)))]
    # square roots: SymPy cancels sqrt(t) ** 2 and sqrt(t) * sqrt(t) for every t (holsmt interprets sqrt; decided by z3 + cvc5)
    sq = fn('sqrt')
    from kernel.term import Nat
    from kernel import term as T
    p2 = lambda e: T.nat_power(RealType)(e, Nat(2))
    sgoals = [Eq(p2(sq(x)), x), Eq(sq(x) * sq(x), x), Eq(sq(x * x), x), Eq(sq(p2(x)), x), sq(x) >= N(0), Eq(p2(sq(x - N(1))), x - N(1)), Eq(sq(x) * sq(x) + N(1), x + N(1)),
              Eq(p2(sq(N(2))), N(2)), Eq(p2(sq(N(-2))), N(-2)), Eq(sq(p2(x)), x), sq(x * x) >= N(0), Eq(p2(sq(x * x)), x * x)]
    for g in sgoals:
        out.append(([], g))
        for (l, h) in ((-1, 1), (0, 1), (1, 3)):
            out.append(([memr(x, mk('real_closed_interval', l, h))], g))
    _G['trans'] = out
    return out


def point_eval(t, xval=0):
    """Exact truth value of t at x := xval (a rational) or None when the evaluator cannot decide."""
    from kernel.type import RealType
    from kernel.term import Var, Number, Lambda
    from vlib.holsmt import ground_eval, Unsupported
    x = Var('x', RealType)
    g = Lambda(x, t)(Number(RealType, xval)).beta_conv()

    def simp(u):
        if u.is_comb():
            h, args = u.strip_comb()
            args = [simp(a) for a in args]
            if h.is_const() and h.name in ('exp', 'sin', 'cos', 'log') and len(args) == 1:
                try:
                    v = ground_eval(args[0])
                except Unsupported:
                    raise
                table = {('exp', 0): 1, ('sin', 0): 0, ('cos', 0): 1, ('log', 1): 0}
                if (h.name, v) in table:
                    return Number(RealType, table[(h.name, v)])
                raise Unsupported('%s at %s' % (h.name, v))
            return h(*args)
        return u
    try:
        return ground_eval(simp(g))
    except Unsupported:
        return None
    except Exception:
        return None


def subterms_of(t):
    yield t
    if t.is_comb():
        yield from subterms_of(t.fun)
        yield from subterms_of(t.arg)
    elif t.is_abs():
        yield from subterms_of(t.body)


def check_trans_goal(j, out):
    hyps, goal = sympy_trans_goals()[j]
    out['evals'] += 1
    th = bridge_sympy(hyps, goal)
    if th is None:
        return
    out['keys'].add('sympyT|%d' % j)
    if os.environ.get('VERIF_TWIN'):
        out['cex'].append({'part': 'sympyT', 'j': j, 'kind': 'twin'})
        return
    if any(t.is_comb('sqrt', 1) for t in subterms_of(goal)):
        v = oracle().valid(hyps, goal)
        if v.status == 'invalid':
            out['cex'].append({'part': 'sympyT', 'j': j, 'kind': 'sympy-accepts-invalid', 'detail': 'SymPyMacro.eval accepts %s%s, which fails for %s' % (
                ('%s |- ' % ', '.join(map(str, hyps))) if hyps else '', goal, v.model)})
        elif v.status == 'unknown':
            out['inconclusive'] += 1
        return
    if all(point_eval(h) is True for h in hyps) and point_eval(goal) is False:
        out['cex'].append({'part': 'sympyT', 'j': j, 'kind': 'sympy-accepts-invalid',
                           'detail': 'SymPyMacro.eval accepts %s |- %s, which fails at x = 0 (exp 0 = 1, sin 0 = 0, cos 0 = 1, t / 0 = 0)' % (', '.join(map(str, hyps)), goal)})
    else:
        out['inconclusive'] += 1


# ------------------------------------------------------------------ units

def units(tier, seed):
    us = []
    n = len(z3_goals())
    for lo in range(0, n, 40):
        us.append(('z3', lo, lo + 40))
    k = 1500 if tier == 'quick' else 12000
    for lo in range(0, k, 100):
        us.append(('z3c', seed, lo, 100))
    for lo in range(0, len(z3u_goals(tier)), 3):
        us.append(('z3u', tier, lo, lo + 3))
    nt = len(sympy_trans_goals())
    for lo in range(0, nt, 20):
        us.append(('sympyT', lo, min(nt, lo + 20)))
    ng = len(z3_order_groups())
    for lo in range(0, ng, 25):
        us.append(('z3o', lo, min(ng, lo + 25)))
    k = 600 if tier == 'quick' else 6000
    for lo in range(0, k, 50):
        us.append(('sympy', seed, lo, 50))
    ne = len(sympy_endpoint_goals())
    for lo in range(0, ne, 30):
        us.append(('sympyE', lo, lo + 30))
    us.append(('flags',))
    random.Random(seed).shuffle(us)
    return us


def run_unit(u):
    out = {'evals': 0, 'keys': set(), 'cex': [], 'samples': [], 'inconclusive': 0, 'stats': {}}
    if u[0] == 'z3':
        gs = z3_goals()
        for i in range(u[1], min(u[2], len(gs))):
            lab, hyps, goal = gs[i]
            check_z3_goal(lab, hyps, goal, out, {'part': 'z3', 'index': i})
        out['samples'].append({'z3_goal': str(gs[u[1]][2]), 'label': gs[u[1]][0]})
    elif u[0] == 'z3u':
        gs = z3u_goals(u[1])
        for i in range(u[2], min(u[3], len(gs))):
            lab, hyps, goal = gs[i]
            check_z3_goal(lab, hyps, goal, out, {'part': 'z3u', 'tier': u[1], 'index': i})
        out['samples'].append({'z3_goal': str(gs[u[2]][2]), 'label': gs[u[2]][0]})
    elif u[0] == 'sympyT':
        for j in range(u[1], u[2]):
            check_trans_goal(j, out)
        out['samples'].append({'sympy_goal': str(sympy_trans_goals()[u[1]][1]), 'premises': [str(h) for h in sympy_trans_goals()[u[1]][0]]})
    elif u[0] == 'z3o':
        for i in range(u[1], u[2]):
            run_order_group(i, out)
        out['samples'].append({'z3_goal_sequence': [str(x[2]) for x in z3_order_groups()[u[1]][1]], 'types': [x[0] for x in z3_order_groups()[u[1]][1]]})
    elif u[0] == 'z3c':
        _, seed, lo, n = u
        rnd = random.Random('c06c-%s-%s' % (seed, lo))
        for j, (lab, hyps, goal) in enumerate(prop_combos(rnd, n)):
            check_z3_goal(lab, hyps, goal, out, {'part': 'z3c', 'seed': seed, 'lo': lo, 'n': n, 'j': j})
        out['samples'].append({'z3_goal': str(goal), 'label': lab})
    elif u[0] == 'sympy':
        _, seed, lo, n = u
        rnd = random.Random('c06s-%s-%s' % (seed, lo))
        gs = sympy_goals(rnd, n)
        for j, (hyps, goal) in enumerate(gs):
            if lo > 0 and j < len(gs) - n:
                continue     # the fixed list is exercised by the first unit only
            check_sympy_goal(hyps, goal, out, {'part': 'sympy', 'seed': seed, 'lo': lo, 'n': n, 'j': j})
        out['samples'].append({'sympy_goal': str(goal), 'premises': [str(h) for h in hyps]})
    elif u[0] == 'sympyE':
        gs = sympy_endpoint_goals()
        for j in range(u[1], min(u[2], len(gs))):
            hyps, goal = gs[j]
            check_sympy_goal(hyps, goal, out, {'part': 'sympyE', 'j': j})
        out['samples'].append({'sympy_goal': str(goal), 'premises': [str(h) for h in hyps]})
    else:
        from prover import z3wrapper
        out['evals'] += 1
        out['keys'].add('flags')
        if not (z3wrapper.check_z3 is True and z3wrapper.z3_loaded):
            out['cex'].append({'kind': 'z3-check-disabled', 'part': 'flags', 'detail': 'z3wrapper.check_z3=%r z3_loaded=%r: the z3 step accepts every goal' % (z3wrapper.check_z3, z3wrapper.z3_loaded)})
        # the macro must refuse an invalid goal and must not widen the hypotheses
        from kernel.term import Var, Eq
        from kernel.type import NatType
        from kernel.thm import Thm
        x = Var('x', NatType)
        try:
            th = z3wrapper.Z3Macro().eval(Eq(x, x + 1), [])
            out['cex'].append({'kind': 'z3-check-disabled', 'part': 'flags', 'detail': 'Z3Macro.eval accepts x = x + 1: %s' % th})
        except Exception:
            pass
    o = ORACLE
    if o is not None:
        out['stats'].update({'oracle_calls': o.calls, 'oracle_queries': o.queries, 'oracle_s': round(o.seconds, 3), 'oracle_counts': dict(o.counts)})
        o.calls = o.queries = 0
        o.seconds = 0.0
        for k in o.counts:
            o.counts[k] = 0
    out['keys'] = list(out['keys'])
    return out


def replay(c):
    k = c['kind']
    if k == 'twin':
        return True, 'twin'
    part = c['part']
    if part == 'flags':
        from prover import z3wrapper
        return not (z3wrapper.check_z3 is True and z3wrapper.z3_loaded), c['detail']
    if part == 'sympyT':
        out = {'evals': 0, 'keys': set(), 'cex': [], 'inconclusive': 0}
        check_trans_goal(c['j'], out)
        return bool(out['cex']), (out['cex'][0]['detail'] if out['cex'] else 'not reproduced')
    if part == 'z3':
        lab, hyps, goal = z3_goals()[c['index']]
    elif part == 'z3o':
        rest, seq = z3_order_groups()[c['index']]
        for tn0, h0, g0 in seq[:c['k']]:
            bridge_z3(h0, g0)           # the earlier goals of the sequence, in order
        lab, hyps, goal = rest, seq[c['k']][1], seq[c['k']][2]
    elif part == 'z3u':
        lab, hyps, goal = z3u_goals(c['tier'])[c['index']]
    elif part == 'z3c':
        rnd = random.Random('c06c-%s-%s' % (c['seed'], c['lo']))
        lab, hyps, goal = prop_combos(rnd, c['n'])[c['j']]
    else:
        if part == 'sympyE':
            hyps, goal = sympy_endpoint_goals()[c['j']]
        else:
            rnd = random.Random('c06s-%s-%s' % (c['seed'], c['lo']))
            hyps, goal = sympy_goals(rnd, c['n'])[c['j']]
        th = bridge_sympy(hyps, goal)
        if th is None:
            return False, 'rejected now'
        v = oracle().valid(hyps, goal)
        return (v.status == 'invalid') == (k == 'sympy-accepts-invalid') and v.status == 'invalid', 'SymPyMacro.eval accepts %s |- %s; HOL counter-model: %s' % (hyps, goal, v.model)
    if not bridge_z3(hyps, goal):
        return False, 'rejected now'
    # also through the macro
    from prover import z3wrapper
    from kernel.thm import Thm
    try:
        th = z3wrapper.Z3Macro().eval(goal, [Thm(h, h) for h in hyps])
    except Exception as e:
        return False, 'Z3Macro.eval rejects: %r' % e
    v = oracle().valid(hyps, goal)
    return v.status == 'invalid', 'z3wrapper.solve and Z3Macro.eval accept %s (result %s); HOL counter-model via %s: %s' % (goal, th, v.how, v.model)
