"""symx -- proxy-based symbolic execution of real Python code with z3.

The code under test is run natively; the scalars a harness declares symbolic are proxy objects
(SymBool / SymInt / SymReal) that build z3 terms.  Whenever the code needs a concrete decision
(`if`, `while`, `and`, ...) the proxy's __bool__ asks the engine, which forks: both outcomes are
checked for feasibility with the solver and the infeasible one is pruned.  Exploration is a
replay-based depth-first search over decision prefixes, so a finished exploration is exhaustive
over the declared symbolic ranges ("holds for every value within the bounds").

Hash / index / str of a proxy *concretise*: the solver picks a model value v, the engine forks on
(e == v) and later explores (e != v).  An unbounded range would never finish, so harnesses only
declare bounded ranges for values that end up concretised.

Nothing here knows about holpy.
"""
import builtins
import numbers
import signal
import time
import fractions

import z3

_isinstance = builtins.isinstance
_INF = float('inf')


class Infeasible(Exception):
    """Current path condition is unsatisfiable (harness assumptions contradict the decisions)."""


class PathBudget(Exception):
    pass


class NonTermination(Exception):
    """Raised inside the code under test when its time budget expires."""


class Stats:
    def __init__(self):
        self.paths = 0            # completed feasible paths
        self.infeasible = 0
        self.queries = 0          # z3 check() calls
        self.solver_s = 0.0
        self.sym_branches = 0     # branches decided by the solver with both sides feasible
        self.enum_choices = 0     # pure enumeration choice points
        self.concretisations = 0
        self.unknown = 0
        self.proved = 0           # prove() obligations discharged (unsat)
        self.refuted = 0
        self.validated = 0        # concolic validations done
        self.validation_errors = []

    def add(self, o):
        for k, v in o.__dict__.items():
            if _isinstance(v, list):
                getattr(self, k).extend(v)
            else:
                setattr(self, k, getattr(self, k) + v)

    def as_dict(self):
        d = dict(self.__dict__)
        d['solver_s'] = round(d['solver_s'], 3)
        d['validation_errors'] = d['validation_errors'][:5]
        return d


ENG = None  # the engine of the exploration currently running in this process

# str()/repr()/format() of a symbolic integer: by default a fixed token (diagnostic messages must not fork the
# exploration); harnesses whose subject *is* the printed form set this to True, and the value is concretised.
STR_CONCRETIZES = False


def cur():
    return ENG


class Engine:
    def __init__(self, timeout_ms=10000):
        self.solver = z3.Solver()
        self.solver.set('timeout', timeout_ms)
        self.stats = Stats()
        self.prefix = []
        self.trace = []
        self.pos = 0
        self.nfresh = 0
        self.vars = {}
        self.pending_globals = []

    # ---- solver plumbing
    def check(self, *extra):
        t0 = time.monotonic()
        r = str(self.solver.check(*extra))
        self.stats.queries += 1
        self.stats.solver_s += time.monotonic() - t0
        if r == 'unknown':
            self.stats.unknown += 1
        return r

    def model(self):
        return self.solver.model()

    def assume(self, cond):
        if _isinstance(cond, SymBool):
            cond = cond.e
        elif _isinstance(cond, bool):
            cond = z3.BoolVal(cond)
        self.solver.add(cond)

    def _declare(self, name, mk, lo, hi):
        """One solver variable per name for the whole exploration; its range constraint is asserted once at the
        base level of the solver (it holds on every path) instead of once per path."""
        ent = self.vars.get(name)
        if ent is None:
            v = mk(name)
            cs = []
            if lo is not None:
                cs.append(v >= lo)
            if hi is not None:
                cs.append(v <= hi)
            self.vars[name] = (v, lo, hi)
            if cs:
                self.solver.add(*cs)          # current scope (this path)
                self.pending_globals.extend(cs)   # re-asserted at base level after this path is popped
            return v
        assert ent[1] == lo and ent[2] == hi, 'symx: %s redeclared with another range' % name
        return ent[0]

    def fresh_int(self, name, lo=None, hi=None):
        return SymInt(self._declare(name, z3.Int, lo, hi))

    def fresh_bool(self, name):
        return SymBool(self._declare(name, z3.Bool, None, None))

    def fresh_real(self, name, lo=None, hi=None):
        return SymReal(self._declare(name, z3.Real, lo, hi))

    # ---- decisions
    def _next_prefix(self):
        if self.pos < len(self.prefix):
            ent = self.prefix[self.pos]
            self.trace.append(ent)
            self.pos += 1
            return ent
        return None

    def branch(self, cond):
        """Decide z3 Bool `cond` on the current path; returns a Python bool."""
        cond = z3.simplify(cond)
        if z3.is_true(cond):
            return True
        if z3.is_false(cond):
            return False
        ent = self._next_prefix()
        if ent is not None:
            assert ent[0] == 'b', ('replay divergence', ent)
            d = ent[1]
        else:
            t_ok = self.check(cond)
            f_ok = self.check(z3.Not(cond))
            if t_ok == 'unknown' or f_ok == 'unknown':
                # treat unknown as feasible: over-approximates paths, never drops one
                t_ok = 'sat' if t_ok != 'unsat' else t_ok
                f_ok = 'sat' if f_ok != 'unsat' else f_ok
            if t_ok == 'sat' and f_ok == 'sat':
                d = True
                self.trace.append(('b', True, True))
                self.stats.sym_branches += 1
            elif t_ok == 'sat':
                d = True
                self.trace.append(('b', True, False))
            elif f_ok == 'sat':
                d = False
                self.trace.append(('b', False, False))
            else:
                raise Infeasible()
            self.pos += 1
        self.solver.add(cond if d else z3.Not(cond))
        return d

    def choice(self, n):
        """Pure enumeration choice point: returns every i in range(n) on some path."""
        assert n >= 1
        if n == 1:
            return 0
        ent = self._next_prefix()
        if ent is not None:
            assert ent[0] == 'ch', ('replay divergence', ent)
            return ent[1]
        self.trace.append(('ch', 0, n))
        self.pos += 1
        self.stats.enum_choices += 1
        return 0

    def pick(self, seq):
        seq = list(seq)
        return seq[self.choice(len(seq))]

    def concretize(self, e, kind='int'):
        """Fork on the value of z3 expression e; returns a Python value."""
        e = z3.simplify(e)
        if kind == 'int' and z3.is_int_value(e):
            return e.as_long()
        if kind == 'bool' and (z3.is_true(e) or z3.is_false(e)):
            return z3.is_true(e)
        while True:
            ent = self._next_prefix()
            if ent is not None:
                assert ent[0] == 'c', ('replay divergence', ent)
                v, taken = ent[1], ent[2]
            else:
                r = self.check()
                if r != 'sat':
                    raise Infeasible()
                mv = self.solver.model().eval(e, model_completion=True)
                v = mv.as_long() if kind == 'int' else z3.is_true(mv)
                taken = True
                self.trace.append(('c', v, True))
                self.pos += 1
                self.stats.concretisations += 1
            ve = z3.IntVal(v) if kind == 'int' else z3.BoolVal(v)
            if taken:
                self.solver.add(e == ve)
                return v
            self.solver.add(e != ve)

    # ---- assertions
    def prove(self, phi):
        """Is phi true for every input on this path?  -> ('unsat', None) | ('sat', model) | ('unknown', None)"""
        if _isinstance(phi, SymBool):
            phi = phi.e
        elif _isinstance(phi, bool):
            phi = z3.BoolVal(phi)
        r = self.check(z3.Not(phi))
        if r == 'unsat':
            self.stats.proved += 1
            return r, None
        if r == 'sat':
            self.stats.refuted += 1
            return r, self.solver.model()
        return r, None

    def feasible(self):
        return self.check() == 'sat'

    # ---- exploration
    def explore(self, fn, max_paths=10 ** 9, deadline=None):
        """Run fn(engine) once per feasible decision path. Returns True iff the tree was exhausted."""
        global ENG
        stack = [[]]
        while stack:
            if self.stats.paths >= max_paths or (deadline and time.monotonic() > deadline):
                return False
            prefix = stack.pop()
            self.prefix, self.trace, self.pos = prefix, [], 0
            self.solver.push()
            prev, ENG = ENG, self
            try:
                fn(self)
                if self.pos >= len(prefix):
                    self.stats.paths += 1
            except Infeasible:
                self.stats.infeasible += 1
            finally:
                ENG = prev
                tr = self.trace
                self.solver.pop()
                if self.pending_globals:
                    self.solver.add(*self.pending_globals)
                    self.pending_globals = []
            for i in range(len(prefix), len(tr)):
                ent = tr[i]
                if ent[0] == 'b' and ent[2]:
                    stack.append(tr[:i] + [('b', not ent[1], False)])
                elif ent[0] == 'ch':
                    for j in range(ent[2] - 1, ent[1], -1):
                        stack.append(tr[:i] + [('ch', j, ent[2])])
                elif ent[0] == 'c' and ent[2]:
                    stack.append(tr[:i] + [('c', ent[1], False)])
        return True


# ------------------------------------------------------------------ proxies

def _zb(o):
    if _isinstance(o, SymBool):
        return o.e
    if _isinstance(o, bool):
        return z3.BoolVal(o)
    return None


class SymBool:
    __slots__ = ('e',)

    def __init__(self, e):
        self.e = e

    def __bool__(self):
        return ENG.branch(self.e)

    def __eq__(self, o):
        oe = _zb(o)
        if oe is None:
            oi = _zi(o)
            if oi is None:
                return False
            return SymBool(z3.If(self.e, 1, 0) == oi)
        return SymBool(self.e == oe)

    def __ne__(self, o):
        r = self.__eq__(o)
        if r is False:
            return True
        return SymBool(z3.Not(r.e))

    def __and__(self, o):
        oe = _zb(o)
        return NotImplemented if oe is None else SymBool(z3.And(self.e, oe))
    __rand__ = __and__

    def __or__(self, o):
        oe = _zb(o)
        return NotImplemented if oe is None else SymBool(z3.Or(self.e, oe))
    __ror__ = __or__

    def __xor__(self, o):
        oe = _zb(o)
        return NotImplemented if oe is None else SymBool(z3.Xor(self.e, oe))
    __rxor__ = __xor__

    def __invert__(self):
        return SymBool(z3.Not(self.e))

    def __hash__(self):
        return hash(ENG.concretize(self.e, 'bool'))

    def __index__(self):
        return int(ENG.concretize(self.e, 'bool'))
    __int__ = __index__

    def __repr__(self):
        if not STR_CONCRETIZES:
            return '<sym-bool>'
        return repr(ENG.concretize(self.e, 'bool'))
    __str__ = __repr__

    def __format__(self, spec):
        if not STR_CONCRETIZES:
            return '<sym-bool>'
        return format(ENG.concretize(self.e, 'bool'), spec)


def _zi(o):
    """z3 Int view of o, or None."""
    if _isinstance(o, SymInt):
        return o.e
    if _isinstance(o, SymBool):
        return z3.If(o.e, z3.IntVal(1), z3.IntVal(0))
    if _isinstance(o, bool):
        return z3.IntVal(int(o))
    if _isinstance(o, int):
        return z3.IntVal(o)
    return None


def _zr(o):
    """z3 Real view of o, or None."""
    if _isinstance(o, SymReal):
        return o.e
    if _isinstance(o, SymInt):
        return z3.ToReal(o.e)
    if _isinstance(o, bool):
        return z3.RealVal(int(o))
    if _isinstance(o, int):
        return z3.RealVal(o)
    if _isinstance(o, fractions.Fraction):
        return z3.RealVal(o.numerator) / z3.RealVal(o.denominator)
    if _isinstance(o, float):
        if o != o or o in (float('inf'), float('-inf')):
            return None
        f = fractions.Fraction(o)
        return z3.RealVal(f.numerator) / z3.RealVal(f.denominator)
    return None


def py_floordiv(a, b):
    """floor(a/b) for z3 Int a,b (b != 0). z3 `a / b` on Ints is Euclidean division."""
    # Euclidean: a = b*q + r, 0 <= r < |b|.  For b > 0 this is floor.  For b < 0: floor(a/b) = -ceil(a/-b)...
    q = a / b
    r = a % b
    return z3.If(b > 0, q, z3.If(r == 0, q, q - 1))


def py_mod(a, b):
    return a - b * py_floordiv(a, b)


class SymInt:
    __slots__ = ('e',)

    def __init__(self, e):
        self.e = e

    def _bin(self, o, f):
        oe = _zi(o)
        if oe is None:
            return NotImplemented
        return SymInt(z3.simplify(f(self.e, oe)))

    def _cmp(self, o, f):
        oe = _zi(o)
        if oe is None:
            if _isinstance(o, float) and o in (_INF, -_INF):
                return f(0.0, o)
            orr = _zr(o)
            if orr is None:
                return NotImplemented
            return SymBool(f(z3.ToReal(self.e), orr))
        return SymBool(f(self.e, oe))

    def __add__(self, o):
        if _isinstance(o, (SymReal, fractions.Fraction, float)):
            return SymReal(z3.ToReal(self.e)).__add__(o)
        return self._bin(o, lambda a, b: a + b)

    def __radd__(self, o):
        if _isinstance(o, (SymReal, fractions.Fraction, float)):
            return SymReal(z3.ToReal(self.e)).__radd__(o)
        return self._bin(o, lambda a, b: b + a)

    def __sub__(self, o):
        if _isinstance(o, (SymReal, fractions.Fraction, float)):
            return SymReal(z3.ToReal(self.e)).__sub__(o)
        return self._bin(o, lambda a, b: a - b)

    def __rsub__(self, o):
        if _isinstance(o, (SymReal, fractions.Fraction, float)):
            return SymReal(z3.ToReal(self.e)).__rsub__(o)
        return self._bin(o, lambda a, b: b - a)

    def __mul__(self, o):
        if _isinstance(o, (SymReal, fractions.Fraction, float)):
            return SymReal(z3.ToReal(self.e)).__mul__(o)
        return self._bin(o, lambda a, b: a * b)

    def __rmul__(self, o):
        if _isinstance(o, (SymReal, fractions.Fraction, float)):
            return SymReal(z3.ToReal(self.e)).__rmul__(o)
        return self._bin(o, lambda a, b: b * a)

    def __neg__(self):
        return SymInt(z3.simplify(-self.e))

    def __pos__(self):
        return self

    def __abs__(self):
        return SymInt(z3.If(self.e >= 0, self.e, -self.e))

    def _nz(self, oe):
        if ENG.branch(oe == 0):
            raise ZeroDivisionError('integer division or modulo by zero')

    def __floordiv__(self, o):
        oe = _zi(o)
        if oe is None:
            return NotImplemented
        self._nz(oe)
        return SymInt(z3.simplify(py_floordiv(self.e, oe)))

    def __rfloordiv__(self, o):
        oe = _zi(o)
        if oe is None:
            return NotImplemented
        self._nz(self.e)
        return SymInt(z3.simplify(py_floordiv(oe, self.e)))

    def __mod__(self, o):
        oe = _zi(o)
        if oe is None:
            return NotImplemented
        self._nz(oe)
        return SymInt(z3.simplify(py_mod(self.e, oe)))

    def __rmod__(self, o):
        oe = _zi(o)
        if oe is None:
            return NotImplemented
        self._nz(self.e)
        return SymInt(z3.simplify(py_mod(oe, self.e)))

    def __divmod__(self, o):
        return self // o, self % o

    def __truediv__(self, o):
        d = _zr(o)
        if d is None:
            return NotImplemented
        if _isinstance(o, int) and not _isinstance(o, bool) and o != 0:
            if o > 0:
                return SymReal(z3.ToReal(self.e) / d, ratio=(self.e, o))
            return SymReal(z3.ToReal(self.e) / d, ratio=(z3.simplify(-self.e), -o))
        if ENG.branch(d == 0):
            raise ZeroDivisionError('division by zero')
        return SymReal(z3.ToReal(self.e) / d)

    def __rtruediv__(self, o):
        n = _zr(o)
        if n is None:
            return NotImplemented
        if ENG.branch(self.e == 0):
            raise ZeroDivisionError('division by zero')
        return SymReal(n / z3.ToReal(self.e))

    def __pow__(self, o):
        if _isinstance(o, int) and not _isinstance(o, bool) and 0 <= o <= 8:
            r = z3.IntVal(1)
            for _ in range(o):
                r = r * self.e
            return SymInt(z3.simplify(r))
        return NotImplemented

    def __lt__(self, o):
        return self._cmp(o, lambda a, b: a < b)

    def __le__(self, o):
        return self._cmp(o, lambda a, b: a <= b)

    def __gt__(self, o):
        return self._cmp(o, lambda a, b: a > b)

    def __ge__(self, o):
        return self._cmp(o, lambda a, b: a >= b)

    def __eq__(self, o):
        r = self._cmp(o, lambda a, b: a == b)
        return False if r is NotImplemented else r

    def __ne__(self, o):
        r = self._cmp(o, lambda a, b: a != b)
        return True if r is NotImplemented else r

    def __bool__(self):
        return ENG.branch(self.e != 0)

    def concretize(self):
        return ENG.concretize(self.e, 'int')

    def __index__(self):
        return self.concretize()

    def __int__(self):
        return self.concretize()

    def __trunc__(self):
        return self

    def __floor__(self):
        return self

    def __ceil__(self):
        return self

    def __round__(self, n=None):
        return self

    def __float__(self):
        return float(self.concretize())

    def __hash__(self):
        return hash(self.concretize())

    def __repr__(self):
        if not STR_CONCRETIZES:
            return '<sym-int>'
        return repr(self.concretize())
    __str__ = __repr__

    def __format__(self, spec):
        if not STR_CONCRETIZES:
            return '<sym-int>'
        return format(self.concretize(), spec)

    @property
    def numerator(self):
        return self

    @property
    def denominator(self):
        return 1

    @property
    def real(self):
        return self

    @property
    def imag(self):
        return 0


class SymReal:
    """Exact real (rational) value; stands for Fraction / float in code whose arithmetic is exact
    for the ranges the harness declares (the float-vs-exact gap is a stated, separately discharged lemma)."""
    __slots__ = ('e', 'ratio')

    def __init__(self, e, ratio=None):
        self.e = e
        self.ratio = ratio    # optional (z3 Int a, python int k > 0) with e == a / k: keeps floor/ceil in LIA

    def _bin(self, o, f):
        oe = _zr(o)
        if oe is None:
            return NotImplemented
        return SymReal(z3.simplify(f(self.e, oe)))

    def _cmp(self, o, f):
        oe = _zr(o)
        if oe is None:
            if _isinstance(o, float) and o in (_INF, -_INF):
                return f(0.0, o)
            return NotImplemented
        return SymBool(f(self.e, oe))

    def __add__(self, o):
        return self._bin(o, lambda a, b: a + b)

    def __radd__(self, o):
        return self._bin(o, lambda a, b: b + a)

    def __sub__(self, o):
        return self._bin(o, lambda a, b: a - b)

    def __rsub__(self, o):
        return self._bin(o, lambda a, b: b - a)

    def __mul__(self, o):
        return self._bin(o, lambda a, b: a * b)

    def __rmul__(self, o):
        return self._bin(o, lambda a, b: b * a)

    def __truediv__(self, o):
        oe = _zr(o)
        if oe is None:
            return NotImplemented
        if ENG.branch(oe == 0):
            raise ZeroDivisionError('division by zero')
        return SymReal(z3.simplify(self.e / oe))

    def __rtruediv__(self, o):
        oe = _zr(o)
        if oe is None:
            return NotImplemented
        if ENG.branch(self.e == 0):
            raise ZeroDivisionError('division by zero')
        return SymReal(z3.simplify(oe / self.e))

    def __neg__(self):
        if self.ratio is not None:
            return SymReal(z3.simplify(-self.e), ratio=(z3.simplify(-self.ratio[0]), self.ratio[1]))
        return SymReal(z3.simplify(-self.e))

    def __pos__(self):
        return self

    def __abs__(self):
        return SymReal(z3.If(self.e >= 0, self.e, -self.e))

    def __lt__(self, o):
        return self._cmp(o, lambda a, b: a < b)

    def __le__(self, o):
        return self._cmp(o, lambda a, b: a <= b)

    def __gt__(self, o):
        return self._cmp(o, lambda a, b: a > b)

    def __ge__(self, o):
        return self._cmp(o, lambda a, b: a >= b)

    def __eq__(self, o):
        r = self._cmp(o, lambda a, b: a == b)
        return False if r is NotImplemented else r

    def __ne__(self, o):
        r = self._cmp(o, lambda a, b: a != b)
        return True if r is NotImplemented else r

    def __bool__(self):
        return ENG.branch(self.e != 0)

    def __floor__(self):
        if self.ratio is not None:
            a, k = self.ratio       # k > 0: z3 integer division is floor division
            return SymInt(z3.simplify(a / k))
        return SymInt(z3.ToInt(self.e))

    def __ceil__(self):
        if self.ratio is not None:
            a, k = self.ratio
            return SymInt(z3.simplify(-((-a) / k)))
        return SymInt(-z3.ToInt(-self.e))

    def __trunc__(self):
        return SymInt(z3.If(self.e >= 0, z3.ToInt(self.e), -z3.ToInt(-self.e)))

    def __int__(self):
        # int() must return a real int for CPython; code under test that calls int(x) on a
        # SymReal gets the truncated value as a *concretised* int
        return ENG.concretize(self.__trunc__().e, 'int')

    def __hash__(self):
        # only integral values can be concretised; otherwise refuse loudly
        if ENG.branch(z3.IsInt(self.e)):
            return hash(ENG.concretize(z3.ToInt(self.e), 'int'))
        raise TypeError('symx: hashing a non-integral symbolic real')

    def __repr__(self):
        return 'SymReal(%s)' % self.e
    __str__ = __repr__

    @property
    def numerator(self):
        raise TypeError('symx: numerator of a symbolic real')


_INT_CLASSES = (int, numbers.Integral, numbers.Rational, numbers.Real, numbers.Complex, numbers.Number)
_REAL_CLASSES = (fractions.Fraction, numbers.Rational, numbers.Real, numbers.Complex, numbers.Number, float)
_REAL_AS = {'classes': (numbers.Real, numbers.Complex, numbers.Number)}


def _patched_isinstance(o, cls):
    to = type(o)
    if to is SymInt:
        if type(cls) is tuple:
            return any(_patched_isinstance(o, c) for c in cls)
        if cls in _INT_CLASSES:
            return True
    elif to is SymBool:
        if type(cls) is tuple:
            return any(_patched_isinstance(o, c) for c in cls)
        if cls is bool or cls in _INT_CLASSES:
            return True
    elif to is SymReal:
        if type(cls) is tuple:
            return any(_patched_isinstance(o, c) for c in cls)
        if cls in _REAL_AS['classes']:
            return True
    return _isinstance(o, cls)


def install_isinstance(real_as=(numbers.Real, numbers.Complex, numbers.Number)):
    """Make proxies pass isinstance checks in this (harness) process."""
    _REAL_AS['classes'] = tuple(real_as)
    builtins.isinstance = _patched_isinstance


def uninstall_isinstance():
    builtins.isinstance = _isinstance


# ------------------------------------------------------------------ helpers

def zexpr(o):
    """z3 expression of a proxy or python scalar."""
    if _isinstance(o, (SymBool,)):
        return o.e
    if _isinstance(o, SymInt):
        return o.e
    if _isinstance(o, SymReal):
        return o.e
    if _isinstance(o, bool):
        return z3.BoolVal(o)
    if _isinstance(o, int):
        return z3.IntVal(o)
    if _isinstance(o, fractions.Fraction):
        return z3.RealVal(o.numerator) / z3.RealVal(o.denominator)
    raise TypeError('zexpr: %r' % (o,))


def is_sym(o):
    return type(o) in (SymBool, SymInt, SymReal)


def model_value(model, o):
    """Concrete python value of proxy o under model."""
    if type(o) is SymBool:
        return z3.is_true(model.eval(o.e, model_completion=True))
    if type(o) is SymInt:
        return model.eval(o.e, model_completion=True).as_long()
    if type(o) is SymReal:
        v = model.eval(o.e, model_completion=True)
        return fractions.Fraction(v.numerator_as_long(), v.denominator_as_long())
    return o


def deep_concrete(model, o):
    """Map a nested list/tuple/dict structure with proxies to plain python values under model."""
    if is_sym(o):
        return model_value(model, o)
    if _isinstance(o, list):
        return [deep_concrete(model, x) for x in o]
    if _isinstance(o, tuple):
        return tuple(deep_concrete(model, x) for x in o)
    if _isinstance(o, dict):
        return {deep_concrete(model, k): deep_concrete(model, v) for k, v in o.items()}
    if _isinstance(o, (set, frozenset)):
        return type(o)(deep_concrete(model, x) for x in o)
    return o


class Native:
    """Context manager: run code natively (no engine); any proxy decision is an error."""

    def __enter__(self):
        global ENG
        self.prev, ENG = ENG, None
        return self

    def __exit__(self, *a):
        global ENG
        ENG = self.prev


def _alarm(signum, frame):
    raise NonTermination()


def call_with_budget(fn, budget_s, *args, **kw):
    """Run fn under an interval timer; NonTermination is raised inside it on expiry (and again every
    50 ms after that, so that code which swallows exceptions in a loop cannot hold on to control)."""
    old = signal.signal(signal.SIGALRM, _alarm)
    signal.setitimer(signal.ITIMER_REAL, budget_s, 0.05)
    try:
        return fn(*args, **kw)
    finally:
        while True:
            try:
                signal.setitimer(signal.ITIMER_REAL, 0)
                signal.signal(signal.SIGALRM, old)
                break
            except NonTermination:
                continue
