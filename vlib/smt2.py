"""Run an SMT-LIB2 query on the z3 and cvc5 command-line binaries concurrently under a hard time limit.
Returns ('sat', values) | ('unsat', None) | ('unknown', reason).  Any `(error` line makes that solver's answer inconclusive."""
import os
import re
import subprocess
import tempfile
import time


def _parse(outp, names):
    if '(error' in outp:
        first = outp.strip().splitlines()[0] if outp.strip() else ''
        if first != 'unsat':
            return 'unknown', 'solver error: ' + outp[:200]
    first = outp.strip().splitlines()[0] if outp.strip() else ''
    if first == 'unsat':
        return 'unsat', None
    if first == 'sat':
        vals = {}
        for n in names:
            m = re.search(r'\(\s*%s\s+#b([01]+)\s*\)' % re.escape(n), outp)
            if m:
                vals[n] = int(m.group(1), 2)
                continue
            m = re.search(r'\(\s*%s\s+#x([0-9a-fA-F]+)\s*\)' % re.escape(n), outp)
            if m:
                vals[n] = int(m.group(1), 16)
                continue
            m = re.search(r'\(\s*%s\s+\(?\s*(-?)\s*(\d+)\s*\)?\s*\)' % re.escape(n), outp)
            if m:
                vals[n] = int(m.group(2)) * (-1 if m.group(1) else 1)
        if len(vals) == len(names):
            return 'sat', vals
        return 'unknown', 'model not parsed: ' + outp[:200]
    return 'unknown', outp[:100]


def solve(smt2_text, names, timeout_s, logic=None):
    text = smt2_text
    if logic and '(set-logic' not in text:
        text = '(set-logic %s)\n' % logic + text
    text = text.replace('(check-sat)', '(check-sat)\n(get-value (%s))' % ' '.join(names))
    with tempfile.NamedTemporaryFile('w', suffix='.smt2', delete=False) as f:
        f.write(text)
        path = f.name
    cmds = [('z3', ['z3-new', path]), ('cvc5', ['cvc5', '--produce-models', path])]
    procs = []
    for nm, cmd in cmds:
        try:
            procs.append((nm, subprocess.Popen(cmd, stdout=subprocess.PIPE, stderr=subprocess.PIPE, text=True)))
        except OSError:
            pass
    deadline = time.monotonic() + timeout_s
    result = ('unknown', 'timeout')
    used = None
    try:
        pending = list(procs)
        while pending and time.monotonic() < deadline:
            for nm, p in list(pending):
                if p.poll() is not None:
                    pending.remove((nm, p))
                    outp = p.stdout.read()
                    r = _parse(outp, names)
                    if r[0] in ('sat', 'unsat'):
                        result, used = r, nm
                        pending = []
                        break
            time.sleep(0.05)
    finally:
        for nm, p in procs:
            if p.poll() is None:
                p.kill()
            try:
                p.wait(timeout=5)
            except Exception:
                pass
        os.unlink(path)
    return result[0], result[1], used
