"""Runner: ./check <ID> [--tier quick|thorough] [--replay file] [--jobs N] [--twin]

Exit codes: 0 held on everything explored; 1 violation (line `VIOLATION property=<id> replay=<path>`);
2 harness error (crash of the machinery); 3 engine/oracle self-check failed.  2/3 are never produced on a
healthy tree and are not verdicts about the property.
"""
import argparse
import hashlib
import importlib
import json
import multiprocessing as mp
import os
import sys
import time
import traceback

ROOT = os.path.dirname(os.path.dirname(os.path.abspath(__file__)))
REPO = os.environ.get('HOLPY_REPO', '/repo')


def _prelude():
    if REPO not in sys.path:
        sys.path.insert(0, REPO)
    if ROOT not in sys.path:
        sys.path.insert(1, ROOT)
    import warnings
    warnings.filterwarnings('ignore')
    sys.setrecursionlimit(10000)


def jsonable(o):
    try:
        json.dumps(o)
        return o
    except TypeError:
        if isinstance(o, dict):
            return {str(k): jsonable(v) for k, v in o.items()}
        if isinstance(o, (list, tuple, set, frozenset)):
            return [jsonable(x) for x in o]
        return str(o)


_MOD = None


def _init_worker(modname, tier, seed):
    global _MOD
    _prelude()
    _MOD = importlib.import_module(modname)
    if hasattr(_MOD, 'setup'):
        _MOD.setup(tier, seed)


def _run_unit(unit):
    t0 = time.monotonic()
    try:
        r = _MOD.run_unit(unit)
        r.setdefault('errors', [])
    except BaseException as e:  # noqa
        if isinstance(e, KeyboardInterrupt):
            raise
        r = {'evals': 0, 'keys': [], 'cex': [], 'samples': [], 'errors': ['unit %r crashed: %s' % (unit, traceback.format_exc(limit=6))]}
    r['unit_s'] = time.monotonic() - t0
    return r


def merge_stats(total, part):
    for k, v in (part or {}).items():
        if isinstance(v, (int, float)):
            total[k] = total.get(k, 0) + v
        elif isinstance(v, dict):
            total[k] = merge_stats(total.get(k, {}), v)
        elif isinstance(v, list):
            total.setdefault(k, [])
            if len(total[k]) < 5:
                total[k].extend(v[:5 - len(total[k])])
    return total


def load_known():
    p = os.path.join(ROOT, 'known_findings.json')
    if not os.path.exists(p):
        return []
    return json.load(open(p)).get('findings', [])


def main(argv=None):
    ap = argparse.ArgumentParser()
    ap.add_argument('pid')
    ap.add_argument('--tier', default=os.environ.get('VERIF_TIER', 'quick'), choices=['quick', 'thorough'])
    ap.add_argument('--replay')
    ap.add_argument('--jobs', type=int, default=int(os.environ.get('VERIF_JOBS', '0')) or min(16, os.cpu_count() or 1))
    ap.add_argument('--twin', action='store_true', help='reachability twin: assertions are `false`, a counterexample must appear')
    ap.add_argument('--no-evidence', action='store_true')
    args = ap.parse_args(argv)
    seed = int(os.environ.get('VERIF_SEED', '0') or 0)
    if os.environ.get('PYTHONHASHSEED') is None:
        os.environ['PYTHONHASHSEED'] = str(seed % 4294967295)
        os.execv(sys.executable, [sys.executable] + sys.argv)
    _prelude()
    pid = args.pid.upper()
    modname = 'props.' + pid.lower()
    t_start = time.monotonic()
    try:
        mod = importlib.import_module(modname)
    except Exception:
        traceback.print_exc()
        print('HARNESS-ERROR property=%s cannot import harness or repository modules' % pid)
        return 2
    if args.twin:
        os.environ['VERIF_TWIN'] = '1'

    if args.replay:
        cex = json.load(open(args.replay))
        if hasattr(mod, 'setup'):
            mod.setup(cex.get('tier', 'quick'), cex.get('seed', 0))
        ok, detail = mod.replay(cex['cex'])
        print('replay: reproduced=%s detail=%s' % (ok, detail))
        if ok:
            print('VIOLATION property=%s replay=%s' % (pid, args.replay))
            return 1
        return 0

    if hasattr(mod, 'setup'):
        try:
            mod.setup(args.tier, seed)
        except Exception:
            traceback.print_exc()
            print('HARNESS-ERROR property=%s setup failed' % pid)
            return 2
    units = list(mod.units(args.tier, seed))
    budget = getattr(mod, 'BUDGET_S', {'quick': 90, 'thorough': 1500})[args.tier]
    deadline = time.monotonic() + budget
    res = {'evals': 0, 'keys': set(), 'cex': [], 'samples': [], 'errors': [], 'stats': {}, 'units_done': 0, 'inconclusive': 0}
    ctx = mp.get_context('fork')
    timed_out = False
    if args.jobs <= 1 or len(units) <= 1:
        it = map(_run_unit, units)
        pool = None
        global _MOD
        _MOD = mod
    else:
        pool = ctx.Pool(min(args.jobs, len(units)), initializer=_init_worker, initargs=(modname, args.tier, seed))
        it = pool.imap_unordered(_run_unit, units)
    try:
        while True:
            try:
                if pool is not None:
                    r = it.next(timeout=max(1.0, deadline - time.monotonic()))
                else:
                    r = next(it)
            except StopIteration:
                break
            except mp.TimeoutError:
                timed_out = True
                break
            res['evals'] += r.get('evals', 0)
            res['keys'].update(r.get('keys', []))
            res['cex'].extend(r.get('cex', []))
            if len(res['samples']) < 12:
                res['samples'].extend(r.get('samples', [])[:2])
            res['errors'].extend(r.get('errors', []))
            res['inconclusive'] += r.get('inconclusive', 0)
            merge_stats(res['stats'], r.get('stats'))
            res['units_done'] += 1
            if os.environ.get('VERIF_DEBUG'):
                print('unit done %.1fs evals=%d %s' % (r.get('unit_s', 0), r.get('evals', 0), str(r.get('samples', [''])[:1])[:120]), flush=True)
            if pool is None and time.monotonic() > deadline:
                timed_out = res['units_done'] < len(units)
                if timed_out:
                    break
    finally:
        if pool is not None:
            pool.terminate()
            pool.join()

    # ---- counterexamples: replay natively, match against known findings
    known = [k for k in load_known() if k.get('property') == pid and k.get('status', 'open') == 'open']
    import kf
    seen = set()
    per_kind = {}
    violations = []
    known_hits = {}
    unreproduced = []
    for c in res['cex']:
        sig = c.get('sig') or hashlib.sha1(json.dumps(jsonable(c), sort_keys=True).encode()).hexdigest()[:16]
        if sig in seen:
            continue
        seen.add(sig)
        matched = None
        for k in known:
            try:
                if kf.MATCHERS[k['matcher']](c, k):
                    matched = k
                    break
            except Exception:
                pass
        if matched is not None and known_hits.get(matched['id'], 0) >= 3:
            known_hits[matched['id']] += 1
            continue   # already confirmed by replay three times; count only
        if matched is None:
            per_kind[c.get('kind')] = per_kind.get(c.get('kind'), 0) + 1
            if per_kind[c.get('kind')] > 4:
                continue   # report at most 4 replayed violations per kind
        try:
            ok, detail = mod.replay(c)
        except Exception:
            ok, detail = False, 'replay crashed: ' + traceback.format_exc(limit=4)
        if not ok:
            unreproduced.append({'cex': jsonable(c), 'detail': detail})
            continue
        if matched is not None:
            known_hits[matched['id']] = known_hits.get(matched['id'], 0) + 1
            continue
        if len(violations) < 20:
            violations.append((sig, c, detail))
    wall = time.monotonic() - t_start

    if args.twin:
        ok = len(res['cex']) > 0
        print('TWIN property=%s reachable=%s (%d counterexamples to `false`)' % (pid, ok, len(res['cex'])))
        return 0 if ok else 3

    rc = 0
    for k in known:
        if k['id'] in known_hits:
            print('KNOWN-FINDING: property=%s %s [%s; %d matching counterexample(s) this run]' % (pid, k['what'], k['id'], known_hits[k['id']]))
    vpaths = []
    if violations:
        rc = 1
        d = os.path.join(ROOT, 'replays', pid)
        os.makedirs(d, exist_ok=True)
        for sig, c, detail in violations:
            p = os.path.join(d, '%s.json' % hashlib.sha1(str(sig).encode()).hexdigest()[:16])
            json.dump({'property': pid, 'tier': args.tier, 'seed': seed, 'cex': jsonable(c), 'detail': detail}, open(p, 'w'), indent=1, sort_keys=True)
            vpaths.append(p)
            print('VIOLATION property=%s replay=%s' % (pid, p))
            print('  kind=%s %s' % (c.get('kind'), str(detail)[:300]))
    if res['errors'] and rc == 0:
        rc = 2
        for e in res['errors'][:5]:
            print('HARNESS-ERROR property=%s %s' % (pid, e))
    if unreproduced and rc == 0:
        rc = 3
        for u in unreproduced[:5]:
            print('ENGINE-ERROR property=%s counterexample did not reproduce natively: %s' % (pid, json.dumps(u)[:600]))
    st = res['stats']
    if st.get('validation_errors') and rc == 0:
        rc = 3
        print('ENGINE-ERROR property=%s concolic validation mismatch: %s' % (pid, st['validation_errors'][:3]))
    nkeys = len(res['keys'])
    if res['evals'] == 0 and rc == 0:
        rc = 3
        print('ENGINE-ERROR property=%s vacuous run (no case reached the assertion)' % pid)

    exhaustive = (not timed_out) and res['units_done'] == len(units) and bool(getattr(mod, 'EXHAUSTIVE', {}).get(args.tier, True)) \
        and st.get('budget_cut', 0) == 0
    if not args.no_evidence:
        level = mod.LEVEL
        cov = {
            'evaluations': res['evals'],
            'distinct_nontrivial': nkeys,
            'rule': mod.RULE,
            'samples': jsonable(res['samples'][:12]) or ['(none)'],
            'explanation': mod.EXPLANATION,
            'exhaustive': exhaustive,
            'functions_encoded': mod.FUNCTIONS,
            'bounds': jsonable(mod.bounds(args.tier) if hasattr(mod, 'bounds') else {}),
            'work_units': {'total': len(units), 'done': res['units_done'], 'stopped_by_budget': timed_out},
            'solver': jsonable(st),
            'inconclusive': res['inconclusive'],
            'known_findings_matched': known_hits,
            'counterexamples_not_reproduced': len(unreproduced),
            'technique': getattr(mod, 'TECHNIQUE', ''),
        }
        if level == 'translation_validation':
            cov['programs'] = res['evals']
            cov['disagreements_checked'] = len(seen)
        ev = {'property_id': pid, 'tier': args.tier, 'seed': seed, 'level': level, 'coverage': cov,
              'assumptions': mod.ASSUMPTIONS, 'wall_s': round(wall, 2), 'violations': len(violations)}
        os.makedirs(os.path.join(ROOT, 'evidence'), exist_ok=True)
        json.dump(ev, open(os.path.join(ROOT, 'evidence', '%s.json' % pid), 'w'), indent=1, sort_keys=True)
    print('%s tier=%s units=%d/%d evaluations=%d distinct=%d inconclusive=%d known=%s violations=%d exhaustive=%s wall=%.1fs rc=%d' % (
        pid, args.tier, res['units_done'], len(units), res['evals'], nkeys, res['inconclusive'], known_hits, len(violations), exhaustive, wall, rc))
    return rc


if __name__ == '__main__':
    sys.exit(main())
