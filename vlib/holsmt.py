"""holsmt -- HOL sequent -> SMT validity oracle (z3), plus a finite tuple encoding and an
independent brute-force evaluator for finite models.

`Oracle.valid(hyps, concl)` returns a Verdict:
  'valid'    z3 proved hyps |= concl in the array/uninterpreted-sort encoding (every standard model,
             every cardinality), or -- when marked bounded=True -- in every finite model with type
             variables of size 1..kmax (finite tuple encoding).
  'invalid'  a counter-model was found *and confirmed by the independent evaluator*.
  'unknown'  anything else (solver unknown, unsupported constant, unconfirmed model).

The module imports only kernel.term / kernel.type of the repository for reading term structure.
"""
import itertools
import time
from fractions import Fraction

import z3

from kernel.type import Type, TFun, BoolType, NatType, IntType, RealType
from kernel.term import Term


class Unsupported(Exception):
    pass


class Verdict:
    def __init__(self, status, how, model=None, bounded=False, seconds=0.0, queries=0):
        self.status = status      # valid | invalid | unknown
        self.how = how            # array | finite-k | ...
        self.model = model        # printable counter-model
        self.bounded = bounded
        self.seconds = seconds
        self.queries = queries

    def __repr__(self):
        return 'Verdict(%s via %s%s)' % (self.status, self.how, ', model=%s' % (self.model,) if self.model else '')


def is_fun(T):
    return T.is_fun()


def mentions(T, names):
    if T.is_tconst():
        if T.name in names:
            return True
        return any(mentions(a, names) for a in T.args)
    return False


def tkey(T):
    return str(T)


_SORTS = {}


def usort(name):
    if name not in _SORTS:
        _SORTS[name] = z3.DeclareSort(name)
    return _SORTS[name]


NUM = ('nat', 'int', 'real')


def literal_list(t):
    """[t1, ..., tn] for a cons/nil chain, else None."""
    out = []
    while True:
        if t.is_const() and t.name == 'nil':
            return out
        if t.is_comb() and t.fun.is_comb() and t.fun.fun.is_const() and t.fun.fun.name == 'cons':
            out.append(t.fun.arg)
            t = t.arg
            continue
        return None



class Enc:
    """Array/lambda encoding."""

    def __init__(self):
        self.consts = {}
        self.n = 0
        self.side = []      # guard axioms for free symbols
        self.used_uninterp = set()

    # -- sorts
    def sort(self, T):
        if T.is_tvar() or T.is_stvar():
            return usort(('Ss_' if T.is_stvar() else 'Sv_') + T.name)
        if T.name == 'bool':
            return z3.BoolSort()
        if T.name in ('nat', 'int'):
            return z3.IntSort()
        if T.name == 'real':
            return z3.RealSort()
        if T.name == 'fun':
            return z3.ArraySort(self.sort(T.args[0]), self.sort(T.args[1]))
        if T.name == 'set':
            return z3.ArraySort(self.sort(T.args[0]), z3.BoolSort())
        return usort('T_' + str(T).replace(' ', '_').replace("'", 'q').replace('?', 's').replace('(', 'L').replace(')', 'R').replace('=>', 'to').replace('⇒', 'to'))

    def fresh(self, T, nm='b'):
        self.n += 1
        return z3.Const('%s!%d' % (nm, self.n), self.sort(T))

    # -- guards: "e is the image of a genuine HOL value of type T"
    def needs_guard(self, T):
        return mentions(T, ('nat',))

    def default(self, T):
        s = self.sort(T)
        if T.is_tconst() and T.name in ('fun', 'set'):
            A = T.args[0]
            B = T.args[1] if T.name == 'fun' else BoolType
            return z3.K(self.sort(A), self.default(B))
        if s == z3.BoolSort():
            return z3.BoolVal(False)
        if s == z3.IntSort():
            return z3.IntVal(0)
        if s == z3.RealSort():
            return z3.RealVal(0)
        key = ('default', tkey(T))
        if key not in self.consts:
            self.consts[key] = z3.Const('dflt_%d' % len(self.consts), s)
        return self.consts[key]

    def guard(self, T, e):
        if not self.needs_guard(T):
            return z3.BoolVal(True)
        if T.name == 'nat':
            return e >= 0
        if T.name in ('fun', 'set'):
            A = T.args[0]
            B = T.args[1] if T.name == 'fun' else BoolType
            x = self.fresh(A, 'g')
            inner = self.guard(B, z3.Select(e, x))
            if self.needs_guard(A):
                return z3.ForAll([x], z3.If(self.guard(A, x), inner, z3.Select(e, x) == self.default(B)))
            return z3.ForAll([x], inner)
        return z3.BoolVal(True)

    def eq(self, T, a, b):
        if T.is_tconst() and T.name in ('fun', 'set') and self.needs_guard(T.args[0]):
            A = T.args[0]
            B = T.args[1] if T.name == 'fun' else BoolType
            x = self.fresh(A, 'e')
            return z3.ForAll([x], z3.Implies(self.guard(A, x), self.eq(B, z3.Select(a, x), z3.Select(b, x))))
        return a == b

    # -- types of open terms
    def typeof(self, t, envT):
        if t.is_bound():
            return envT[t.n]
        if t.is_abs():
            return TFun(t.var_T, self.typeof(t.body, (t.var_T,) + envT))
        if t.is_comb():
            fT = self.typeof(t.fun, envT)
            if not fT.is_fun():
                raise Unsupported('ill-typed application')
            return fT.args[1]
        return t.T

    def symbol(self, t):
        kind = 'S' if t.is_svar() else ('V' if t.is_var() else 'C')
        key = (kind, t.name, tkey(t.T))
        if key not in self.consts:
            c = z3.Const('%s_%s_%d' % (kind, t.name, len(self.consts)), self.sort(t.T))
            self.consts[key] = c
            g = self.guard(t.T, c)
            if not z3.is_true(g):
                self.side.append(g)
            if kind == 'C':
                self.used_uninterp.add(t.name)
        return self.consts[key]

    def lam(self, T, f):
        """z3 Lambda x:T. f(x), canonical outside the guard of T."""
        x = self.fresh(T, 'l')
        body = f(x)
        return z3.Lambda([x], body)

    def tr(self, t, env=(), envT=()):
        if t.is_var() or t.is_svar():
            return self.symbol(t)
        if t.is_bound():
            if t.n >= len(env):
                raise Unsupported('loose bound variable')
            return env[t.n]
        if t.is_abs():
            x = self.fresh(t.var_T, 'l')
            body = self.tr(t.body, (x,) + env, (t.var_T,) + envT)
            if self.needs_guard(t.var_T):
                bT = self.typeof(t.body, (t.var_T,) + envT)
                body = z3.If(self.guard(t.var_T, x), body, self.default(bT))
            return z3.Lambda([x], body)
        if t.is_const():
            return self.const(t, [], env, envT)
        h, args = t.strip_comb()
        if h.is_const():
            return self.const(h, args, env, envT)
        f = self.tr(h, env, envT)
        for a in args:
            f = z3.Select(f, self.tr(a, env, envT))
        return f

    # -- interpreted constants
    def const(self, h, args, env, envT):
        name, T = h.name, h.T
        argTs, resT = T.strip_type()
        tr = lambda a: self.tr(a, env, envT)

        def need(n):
            return len(args) >= n

        def rest(val, n):
            for a in args[n:]:
                val = z3.Select(val, tr(a))
            return val

        def eta(n):
            # eta-expand the partially applied interpreted constant to n arguments
            from kernel.term import Bound, Abs
            k = n - len(args)
            shifted = [a.incr_boundvars(k) for a in args]
            body = h(*(shifted + [Bound(k - 1 - i) for i in range(k)]))
            for i in reversed(range(len(args), n)):
                body = Abs('h%d' % i, argTs[i], body)
            return self.tr(body, env, envT)

        def arith(n, f):
            if not need(n):
                return eta(n)
            return rest(f(*[tr(a) for a in args[:n]]), n)

        if name == 'true' and not args:
            return z3.BoolVal(True)
        if name == 'false' and not args:
            return z3.BoolVal(False)
        if name == 'neg':
            return arith(1, lambda a: z3.Not(a))
        if name == 'conj':
            return arith(2, lambda a, b: z3.And(a, b))
        if name == 'disj':
            return arith(2, lambda a, b: z3.Or(a, b))
        if name == 'implies':
            return arith(2, lambda a, b: z3.Implies(a, b))
        if name == 'xor':
            return arith(2, lambda a, b: z3.Xor(a, b))
        if name == 'equals':
            A = argTs[0]
            return arith(2, lambda a, b: self.eq(A, a, b))
        if name in ('all', 'exists', 'exists1'):
            if not need(1):
                return eta(1)
            A = argTs[0].args[0]
            P = args[0]
            x = self.fresh(A, 'q')
            if P.is_abs():
                body = self.tr(P.body, (x,) + env, (A,) + envT)
            else:
                body = z3.Select(tr(P), x)
            g = self.guard(A, x)
            if name == 'all':
                return z3.ForAll([x], z3.Implies(g, body))
            if name == 'exists':
                return z3.Exists([x], z3.And(g, body))
            y = self.fresh(A, 'q')
            if P.is_abs():
                body_y = self.tr(P.body, (y,) + env, (A,) + envT)
            else:
                body_y = z3.Select(tr(P), y)
            return z3.Exists([x], z3.And(g, body, z3.ForAll([y], z3.Implies(z3.And(self.guard(A, y), body_y), self.eq(A, y, x)))))
        if name == 'distinct' and len(args) == 1 and literal_list(args[0]) is not None:
            # library (list.json): distinct on a literal list = its elements are pairwise different
            es = [tr(e) for e in literal_list(args[0])]
            T0 = argTs[0].args[0]
            return z3.And([z3.Not(self.eq(T0, es[i], es[j])) for i in range(len(es)) for j in range(i + 1, len(es))] + [z3.BoolVal(True)])
        if name == 'IF':
            return arith(3, lambda c, a, b: z3.If(c, a, b))
        if name == 'Let':
            if not need(2):
                return eta(2)
            f = args[1]
            v = tr(args[0])
            if f.is_abs():
                return rest(self.tr(f.body, (v,) + env, (argTs[0],) + envT), 2)
            return rest(z3.Select(tr(f), v), 2)
        if name == 'fun_upd':
            return arith(3, lambda f, a, b: z3.Store(f, a, b))
        # ---- numerals and arithmetic
        if name == 'zero' and T.name in NUM:
            return z3.RealVal(0) if T.name == 'real' else z3.IntVal(0)
        if name == 'one' and T.name in NUM:
            return z3.RealVal(1) if T.name == 'real' else z3.IntVal(1)
        if name in ('bit0', 'bit1') and resT == NatType:
            return arith(1, lambda a: 2 * a + (1 if name == 'bit1' else 0))
        if name == 'Suc':
            return arith(1, lambda a: a + 1)
        if name == 'Pre' and resT == NatType:
            return arith(1, lambda a: z3.If(a >= 1, a - 1, 0))
        if name in ('of_nat', 'of_int') and resT.name in NUM and argTs[0].name in ('nat', 'int'):
            if resT.name == 'real':
                return arith(1, lambda a: z3.ToReal(a))
            if resT.name == 'nat' and argTs[0].name == 'int':
                raise Unsupported('of_int at nat')
            return arith(1, lambda a: a)
        if resT.is_tconst() and resT.name in NUM and all(a == resT for a in argTs):
            if name == 'plus':
                return arith(2, lambda a, b: a + b)
            if name == 'times':
                return arith(2, lambda a, b: a * b)
            if name == 'minus':
                if resT.name == 'nat':
                    return arith(2, lambda a, b: z3.If(a >= b, a - b, z3.IntVal(0)))
                return arith(2, lambda a, b: a - b)
            if name == 'uminus' and resT.name != 'nat':
                return arith(1, lambda a: -a)
            if name == 'abs' and resT.name != 'nat':
                return arith(1, lambda a: z3.If(a >= 0, a, -a))
            if name == 'max':
                return arith(2, lambda a, b: z3.If(a <= b, b, a))
            if name == 'min':
                return arith(2, lambda a, b: z3.If(a <= b, a, b))
            if name == 'real_divide' and resT.name == 'real':
                return arith(2, lambda a, b: z3.If(b == 0, z3.RealVal(0), a / b))
            if name == 'real_inverse' and resT.name == 'real':
                return arith(1, lambda a: z3.If(a == 0, z3.RealVal(0), 1 / a))
            if name == 'sqrt' and resT.name == 'real':
                if not need(1):
                    return eta(1)
                a = tr(args[0])
                self.n += 1
                s = z3.Real('sqrt!%d' % self.n)
                # library: sqrt x = SOME y. sgn y = sgn x & y^2 = |x|   (unique such y)
                self.side.append(z3.And(s * s == z3.If(a >= 0, a, -a), z3.If(a >= 0, s >= 0, s <= 0)))
                return rest(s, 1)
            if name == 'nat_divide' and resT.name == 'nat':
                raise Unsupported('nat_divide')
        if name == 'power' and resT.is_tconst() and resT.name in NUM and len(argTs) == 2 and argTs[0] == resT:
            if not need(2):
                raise Unsupported('partial power')
            base = tr(args[0])
            ex = args[1]
            if argTs[1] == NatType and ex.is_number():
                n = ex.dest_number()
                if n > 64:
                    raise Unsupported('large power')
                r = z3.RealVal(1) if resT.name == 'real' else z3.IntVal(1)
                for _ in range(n):
                    r = r * base
                return rest(r, 2)
            if resT.name == 'real' and argTs[1] == resT:
                # real ^ real with an integer numeral exponent, holpy's convention (data.real.real_eval): x ^ 0 = 1, 0 ^ p = 0 (p != 0),
                # x ^ (-n) = 1 / x ^ n
                pv = None
                try:
                    pv = ground_eval(ex)
                except Exception:
                    pv = None
                if pv is not None and Fraction(pv).denominator == 1 and abs(pv) <= 64:
                    n = int(pv)
                    if n == 0:
                        return rest(z3.RealVal(1), 2)
                    r = z3.RealVal(1)
                    for _ in range(abs(n)):
                        r = r * base
                    return rest(r if n > 0 else z3.If(base == 0, z3.RealVal(0), 1 / r), 2)
            raise Unsupported('power with non-numeral or non-nat exponent')
        if name in ('less', 'less_eq', 'greater', 'greater_eq') and len(argTs) == 2 and argTs[0].is_tconst() and argTs[0].name in NUM:
            op = {'less': lambda a, b: a < b, 'less_eq': lambda a, b: a <= b,
                  'greater': lambda a, b: a > b, 'greater_eq': lambda a, b: a >= b}[name]
            return arith(2, op)
        # ---- sets as predicates
        if name == 'member':
            return arith(2, lambda x, s: z3.Select(s, x))
        if name == 'collect':
            if not need(1):
                return eta(1)
            return rest(tr(args[0]), 1)
        if name == 'empty_set' and not args:
            return z3.K(self.sort(T.args[0]), z3.BoolVal(False))
        if name == 'univ' and not args:
            A = T.args[0]
            if self.needs_guard(A):
                x = self.fresh(A, 'u')
                return z3.Lambda([x], self.guard(A, x))
            return z3.K(self.sort(A), z3.BoolVal(True))
        if name in ('inter', 'union', 'diff') and need(2):
            A = argTs[0].args[0]
            a, b = tr(args[0]), tr(args[1])
            x = self.fresh(A, 's')
            f = {'inter': z3.And, 'union': z3.Or, 'diff': lambda p, q: z3.And(p, z3.Not(q))}[name]
            return rest(z3.Lambda([x], f(z3.Select(a, x), z3.Select(b, x))), 2)
        if name == 'subset' and need(2):
            A = argTs[0].args[0]
            a, b = tr(args[0]), tr(args[1])
            x = self.fresh(A, 's')
            return rest(z3.ForAll([x], z3.Implies(z3.Select(a, x), z3.Select(b, x))), 2)
        if name == 'insert' and need(2):
            return rest(z3.Store(tr(args[1]), tr(args[0]), z3.BoolVal(True)), 2)
        if name in ('real_closed_interval', 'real_open_interval', 'real_lopen_interval', 'real_ropen_interval') and need(2):
            lo, hi = tr(args[0]), tr(args[1])
            x = self.fresh(RealType, 'iv')
            lc = (lo <= x) if name in ('real_closed_interval', 'real_ropen_interval') else (lo < x)
            hc = (x <= hi) if name in ('real_closed_interval', 'real_lopen_interval') else (x < hi)
            return rest(z3.Lambda([x], z3.And(lc, hc)), 2)
        if name in ('Some', 'The', 'sqrt', 'nat_divide', 'nat_modulus'):
            # choice-like: uninterpreted is sound for validity only if congruence holds, which it does
            pass
        # ---- uninterpreted constant at this type instance
        f = self.symbol(h)
        for a in args:
            f = z3.Select(f, tr(a))
        return f

    def check_valid(self, hyps, concl, timeout_ms):
        s = z3.Solver()
        s.set('timeout', timeout_ms)
        hs = [self.tr(h) for h in hyps]
        c = self.tr(concl)
        for g in self.side:
            s.add(g)
        for h in hs:
            s.add(h)
        s.add(z3.Not(c))
        r = str(s.check())
        return r, s


# ============================================================ finite tuple encoding

class Fin:
    """Type variables are finite sets {0..k-1}; function values are tuples of component expressions."""

    def __init__(self, k, sizes=None):
        self.k = k
        self.sizes = sizes or {}
        self.consts = {}
        self.cnt = 0
        self.side = []
        self._elems = {}

    def size(self, T):
        return self.sizes.get(tkey(T), self.k)

    def elems(self, T):
        key = tkey(T)
        if key in self._elems:
            return self._elems[key]
        if T.is_tvar() or T.is_stvar():
            r = list(range(self.size(T)))
        elif T.name == 'bool':
            r = [False, True]
        elif T.name in ('fun', 'set'):
            A = T.args[0]
            B = T.args[1] if T.name == 'fun' else BoolType
            dom, rng = self.elems(A), self.elems(B)
            if len(rng) ** len(dom) > 4096:
                raise Unsupported('function space too large')
            r = [tuple(c) for c in itertools.product(rng, repeat=len(dom))]
        else:
            raise Unsupported('finite encoding: type %s' % T)
        self._elems[key] = r
        return r

    def parts(self, T):
        return (T.args[0], T.args[1] if T.name == 'fun' else BoolType)

    def isfun(self, T):
        return T.is_tconst() and T.name in ('fun', 'set')

    def lift(self, T, v):
        if T.is_tvar() or T.is_stvar():
            return z3.IntVal(v)
        if T.name == 'bool':
            return z3.BoolVal(v)
        A, B = self.parts(T)
        return tuple(self.lift(B, c) for c in v)

    def fresh(self, T, nm):
        if T.is_tvar() or T.is_stvar():
            self.cnt += 1
            c = z3.Int('%s_%d' % (nm, self.cnt))
            self.side.append(z3.And(c >= 0, c < self.size(T)))
            return c
        if T.name == 'bool':
            self.cnt += 1
            return z3.Bool('%s_%d' % (nm, self.cnt))
        if self.isfun(T):
            A, B = self.parts(T)
            return tuple(self.fresh(B, nm) for _ in self.elems(A))
        raise Unsupported('finite encoding: type %s' % T)

    def eq(self, T, a, b):
        if self.isfun(T):
            A, B = self.parts(T)
            return z3.And([self.eq(B, x, y) for x, y in zip(a, b)])
        return a == b

    def ite(self, T, c, a, b):
        if self.isfun(T):
            A, B = self.parts(T)
            return tuple(self.ite(B, c, x, y) for x, y in zip(a, b))
        return z3.If(c, a, b)

    def app(self, T, f, a):
        A, B = self.parts(T)
        dom = self.elems(A)
        res = f[-1]
        for i in range(len(dom) - 2, -1, -1):
            res = self.ite(B, self.eq(A, a, self.lift(A, dom[i])), f[i], res)
        return res

    def typeof(self, t, envT):
        if t.is_bound():
            return envT[t.n]
        if t.is_abs():
            return TFun(t.var_T, self.typeof(t.body, (t.var_T,) + envT))
        if t.is_comb():
            fT = self.typeof(t.fun, envT)
            if not fT.is_fun():
                raise Unsupported('ill-typed application')
            return fT.args[1]
        return t.T

    def symbol(self, t):
        kind = 'S' if t.is_svar() else ('V' if t.is_var() else 'C')
        key = (kind, t.name, tkey(t.T))
        if key not in self.consts:
            self.consts[key] = self.fresh(t.T, kind + '_' + t.name)
        return self.consts[key]

    def tr(self, t, env=(), envT=()):
        if t.is_var() or t.is_svar():
            return self.symbol(t)
        if t.is_bound():
            if t.n >= len(env):
                raise Unsupported('loose bound variable')
            return env[t.n]
        if t.is_abs():
            return tuple(self.tr(t.body, (self.lift(t.var_T, d),) + env, (t.var_T,) + envT) for d in self.elems(t.var_T))
        if t.is_const():
            return self.const(t, [], env, envT)
        h, args = t.strip_comb()
        if h.is_const():
            return self.const(h, args, env, envT)
        f = self.tr(h, env, envT)
        fT = self.typeof(h, envT)
        for a in args:
            f = self.app(fT, f, self.tr(a, env, envT))
            fT = fT.args[1]
        return f

    def const_value(self, h):
        """Full semantic value (nested tuples) of an interpreted constant, by brute force."""
        name, T = h.name, h.T
        argTs, resT = T.strip_type()
        doms = [self.elems(A) for A in argTs]

        def build(i, vals):
            if i == len(argTs):
                return self.lift(resT, pyconst(self, name, T, vals))
            return tuple(build(i + 1, vals + [d]) for d in doms[i])
        return build(0, [])

    def const(self, h, args, env, envT):
        name, T = h.name, h.T
        argTs, resT = T.strip_type()
        tr = lambda a: self.tr(a, env, envT)

        def rest(val, n):
            fT = TFun(*(list(argTs[n:]) + [resT])) if n < len(argTs) else resT
            for a in args[n:]:
                val = self.app(fT, val, tr(a))
                fT = fT.args[1]
            return val
        n = len(args)
        if name == 'true' and n == 0:
            return z3.BoolVal(True)
        if name == 'false' and n == 0:
            return z3.BoolVal(False)
        if name == 'neg' and n >= 1:
            return z3.Not(tr(args[0]))
        if name == 'conj' and n >= 2:
            return z3.And(tr(args[0]), tr(args[1]))
        if name == 'disj' and n >= 2:
            return z3.Or(tr(args[0]), tr(args[1]))
        if name == 'implies' and n >= 2:
            return z3.Implies(tr(args[0]), tr(args[1]))
        if name == 'equals' and n >= 2:
            return self.eq(argTs[0], tr(args[0]), tr(args[1]))
        if name in ('all', 'exists', 'exists1') and n >= 1:
            A = argTs[0].args[0]
            P = tr(args[0])      # tuple over elems(A)
            if name == 'all':
                return z3.And(list(P))
            if name == 'exists':
                return z3.Or(list(P))
            return z3.PbEq([(p, 1) for p in P], 1)
        if name == 'distinct' and n == 1 and literal_list(args[0]) is not None:
            es = [tr(e) for e in literal_list(args[0])]
            T0 = argTs[0].args[0]
            return z3.And([z3.Not(self.eq(T0, es[i], es[j])) for i in range(len(es)) for j in range(i + 1, len(es))] + [z3.BoolVal(True)])
        if name == 'IF' and n >= 3:
            return rest(self.ite(argTs[1], tr(args[0]), tr(args[1]), tr(args[2])), 3)
        if name == 'Let' and n >= 2:
            return rest(self.app(argTs[1], tr(args[1]), tr(args[0])), 2)
        if name in PY_CONSTS:
            val = self.const_value(h)
            return rest(val, 0)
        raise Unsupported('finite encoding: constant %s' % name)
        f = self.symbol(h)
        fT = T
        for a in args:
            f = self.app(fT, f, tr(a))
            fT = fT.args[1]
        return f


# constants that really are unspecified (any interpretation is a model)
FREE_CONSTS = ()

PY_CONSTS = ('true', 'false', 'neg', 'conj', 'disj', 'implies', 'equals', 'all', 'exists', 'exists1', 'IF', 'Let',
             'member', 'collect', 'empty_set', 'univ', 'fun_upd', 'xor')


def pyconst(fin, name, T, vals):
    """Concrete semantics of an interpreted constant on concrete finite-model values."""
    argTs, resT = T.strip_type()
    if name == 'true':
        return True
    if name == 'false':
        return False
    if name == 'neg':
        return not vals[0]
    if name == 'conj':
        return vals[0] and vals[1]
    if name == 'disj':
        return vals[0] or vals[1]
    if name == 'implies':
        return (not vals[0]) or vals[1]
    if name == 'xor':
        return vals[0] != vals[1]
    if name == 'equals':
        return vals[0] == vals[1]
    if name == 'all':
        return all(vals[0])
    if name == 'exists':
        return any(vals[0])
    if name == 'exists1':
        return sum(1 for v in vals[0] if v) == 1
    if name == 'IF':
        return vals[1] if vals[0] else vals[2]
    if name == 'Let':
        return pyapp(fin, argTs[1], vals[1], vals[0])
    if name == 'member':
        return pyapp(fin, argTs[1], vals[1], vals[0])
    if name == 'collect':
        return vals[0]
    if name == 'empty_set':
        return tuple(False for _ in fin.elems(T.args[0]))
    if name == 'univ':
        return tuple(True for _ in fin.elems(T.args[0]))
    if name == 'fun_upd':
        f, a, b = vals[0], vals[1], vals[2]
        dom = fin.elems(argTs[1])
        g = tuple(b if d == a else f[i] for i, d in enumerate(dom))
        if len(vals) > 3:
            return pyapp(fin, argTs[0], g, vals[3])
        return g
    raise Unsupported('pyconst ' + name)


def pyapp(fin, fT, f, a):
    A = fT.args[0]
    return f[fin.elems(A).index(a)]


def pyeval(fin, t, interp, env=(), envT=()):
    """Independent brute-force evaluation of term t in a finite model.
    interp maps (kind, name, typekey) -> concrete value (ints, bools, nested tuples)."""
    if t.is_var() or t.is_svar() or t.is_const():
        if t.is_const() and t.name in PY_CONSTS:
            argTs, resT = t.T.strip_type()
            doms = [fin.elems(A) for A in argTs]

            def build(i, vals):
                if i == len(argTs):
                    return pyconst(fin, t.name, t.T, vals)
                return tuple(build(i + 1, vals + [d]) for d in doms[i])
            return build(0, [])
        kind = 'S' if t.is_svar() else ('V' if t.is_var() else 'C')
        return interp[(kind, t.name, tkey(t.T))]
    if t.is_bound():
        return env[t.n]
    if t.is_abs():
        return tuple(pyeval(fin, t.body, interp, (d,) + env, (t.var_T,) + envT) for d in fin.elems(t.var_T))
    if t.fun.is_const() and t.fun.name == 'distinct' and literal_list(t.arg) is not None:
        vs = [pyeval(fin, e, interp, env, envT) for e in literal_list(t.arg)]
        return all(vs[i] != vs[j] for i in range(len(vs)) for j in range(i + 1, len(vs)))
    fT = fin.typeof(t.fun, envT)
    return pyapp(fin, fT, pyeval(fin, t.fun, interp, env, envT), pyeval(fin, t.arg, interp, env, envT))


def _decode(fin, T, sym, model):
    if fin.isfun(T):
        A, B = fin.parts(T)
        return tuple(_decode(fin, B, s, model) for s in sym)
    v = model.eval(sym, model_completion=True)
    if T.is_tconst() and T.name == 'bool':
        return z3.is_true(v)
    return v.as_long()


# ============================================================ ground arithmetic evaluator (independent)

INTERVALS = {'real_closed_interval': (True, True), 'real_open_interval': (False, False)}


def ground_eval(t):
    """Exact value of a ground arithmetic/boolean HOL term under the library semantics.
    Returns bool / int / Fraction; raises Unsupported otherwise.  Independent of z3."""
    if t.is_const():
        if t.name == 'true':
            return True
        if t.name == 'false':
            return False
        if t.name == 'zero':
            return 0
        if t.name == 'one':
            return 1
        raise Unsupported('ground_eval const %s' % t.name)
    if not t.is_comb():
        raise Unsupported('ground_eval non-ground')
    h, args = t.strip_comb()
    if not h.is_const():
        raise Unsupported('ground_eval head')
    name = h.name
    argTs, resT = h.T.strip_type()
    if len(args) != len(argTs):
        raise Unsupported('ground_eval partial application')
    if name == 'member' and len(args) == 2 and args[1].is_comb() and args[1].head.is_const() and \
            args[1].head.name in INTERVALS and len(args[1].args) == 2:
        # x Mem real_{closed,open}_interval a b etc. by the definitions in library/misc.json
        x, lo, hi = ground_eval(args[0]), ground_eval(args[1].args[0]), ground_eval(args[1].args[1])
        lc, rc = INTERVALS[args[1].head.name]
        return (lo <= x if lc else lo < x) and (x <= hi if rc else x < hi)
    v = [ground_eval(a) for a in args]
    rn = resT.name if resT.is_tconst() else None
    if name == 'neg':
        return not v[0]
    if name == 'conj':
        return v[0] and v[1]
    if name == 'disj':
        return v[0] or v[1]
    if name == 'implies':
        return (not v[0]) or v[1]
    if name == 'equals':
        return v[0] == v[1]
    if name == 'IF':
        return v[1] if v[0] else v[2]
    if name == 'bit0' and rn == 'nat':
        return 2 * v[0]
    if name == 'bit1' and rn == 'nat':
        return 2 * v[0] + 1
    if name == 'Suc':
        return v[0] + 1
    if name == 'Pre' and rn == 'nat':
        return max(v[0] - 1, 0)     # library (nat.json): Pre 0 = 0, Pre (Suc n) = n
    if name in ('of_nat', 'of_int') and rn in NUM:
        if rn == 'nat' and argTs[0].name == 'int':
            raise Unsupported('of_int at nat')
        return v[0]
    if rn in NUM and all(a == resT for a in argTs):
        if name == 'plus':
            return v[0] + v[1]
        if name == 'times':
            return v[0] * v[1]
        if name == 'minus':
            return max(v[0] - v[1], 0) if rn == 'nat' else v[0] - v[1]
        if name == 'uminus' and rn != 'nat':
            return -v[0]
        if name == 'abs' and rn != 'nat':
            return abs(v[0])
        if name == 'max':
            return max(v[0], v[1])
        if name == 'min':
            return min(v[0], v[1])
        if name == 'real_divide' and rn == 'real':
            return 0 if v[1] == 0 else Fraction(v[0]) / Fraction(v[1])
        if name == 'real_inverse' and rn == 'real':
            return 0 if v[0] == 0 else 1 / Fraction(v[0])
    if name == 'power' and rn == 'real' and argTs[0] == resT and argTs[1] == resT and Fraction(v[1]).denominator == 1 and abs(v[1]) <= 4096:
        n = int(v[1])
        if n == 0:
            return 1
        if v[0] == 0:
            return 0
        return Fraction(v[0]) ** n
    if name == 'power' and rn in NUM and argTs[0] == resT and argTs[1] == NatType:
        if v[1] > 4096:
            raise Unsupported('huge power')
        return Fraction(v[0]) ** v[1] if rn == 'real' else v[0] ** v[1]
    if name in ('less', 'less_eq', 'greater', 'greater_eq') and argTs[0].is_tconst() and argTs[0].name in NUM:
        return {'less': v[0] < v[1], 'less_eq': v[0] <= v[1], 'greater': v[0] > v[1], 'greater_eq': v[0] >= v[1]}[name]
    raise Unsupported('ground_eval %s' % name)


# ============================================================ front end

class Oracle:
    def __init__(self, timeout_ms=2000, kmax=3, second_solver=False):
        self.second_solver = second_solver
        self.timeout_ms = timeout_ms
        self.kmax = kmax
        self.calls = 0
        self.queries = 0
        self.seconds = 0.0
        self.counts = {'valid': 0, 'invalid': 0, 'unknown': 0, 'valid-bounded': 0}
        self.memo = {}

    def valid(self, hyps, concl, key=None):
        """Is hyps |= concl valid in every standard model?"""
        if key is not None and key in self.memo:
            return self.memo[key]
        t0 = time.monotonic()
        v = self._valid(list(hyps), concl)
        v.seconds = time.monotonic() - t0
        self.seconds += v.seconds
        self.calls += 1
        k = v.status + ('-bounded' if v.status == 'valid' and v.bounded else '')
        self.counts[k] += 1
        if key is not None:
            self.memo[key] = v
        return v

    def valid_thm(self, th):
        key = (tuple(sorted(h.print_basic() + '::' + repr(h) for h in th.hyps)), repr(th.prop))
        return self.valid(th.hyps, th.prop, key=key)

    def _valid(self, hyps, concl):
        v = self._valid0(hyps, concl)
        if v.status == 'unknown':
            t = self._templates(hyps, concl)
            if t is not None:
                return t
        return v

    # ---- counter-models by template: a free variable f : num => num is universally quantified, so one invalid
    # instance of the sequent refutes it.  f is replaced by a few concrete functions (n+c, c, 2n, c-n), the result is
    # beta-normalised, and the function-free instance is decided: a closed instance only by `valid` verdicts
    # (every hypothesis valid, the negated conclusion valid), an open one by the ordinary confirmed pipeline.
    def _templates(self, hyps, concl):
        from kernel.term import Var, Lambda, Number, Not, Inst
        fvars = []
        for t in list(hyps) + [concl]:
            for v in t.get_vars():
                if v not in fvars and is_fun(v.T) and len(v.T.args) == 2 and v.T.args[0] == v.T.args[1] and v.T.args[0] in (NatType, IntType, RealType):
                    fvars.append(v)
        if not fvars or len(fvars) > 2:
            return None

        def temps(ty):
            n = Var('n_', ty)
            N = lambda k: Number(ty, k)
            out = [('%n. n', Lambda(n, n)), ('%n. n + 1', Lambda(n, n + N(1))), ('%n. 0', Lambda(n, N(0))), ('%n. 1', Lambda(n, N(1))),
                   ('%n. 2 * n', Lambda(n, N(2) * n)), ('%n. n + 2', Lambda(n, n + N(2))), ('%n. 1 - n', Lambda(n, N(1) - n))]
            if ty != NatType:
                out.append(('%n. -n', Lambda(n, N(0) - n)))
            return out
        for combo in itertools.product(*[temps(v.T.args[0]) for v in fvars]):
            def put(t):
                for v, (_, lam) in zip(fvars, combo):
                    t = t.abstract_over(v).subst_bound(lam) if False else Lambda(v, t)(lam).beta_conv()
                return t.beta_norm()
            try:
                hs = [put(h) for h in hyps]
                c = put(concl)
            except Exception:
                continue
            # strip implications of the conclusion into hypotheses
            while c.is_implies():
                hs.append(c.arg1)
                c = c.arg
            model = {v.name: lab for v, (lab, _) in zip(fvars, combo)}
            if all(not t.get_vars() and not t.get_svars() for t in hs + [c]):
                ok = True
                for h in hs:
                    if self._valid0([], h).status != 'valid':
                        ok = False
                        break
                if ok and self._valid0([], Not(c)).status == 'valid':
                    return Verdict('invalid', 'template-instance(closed)', model=model)
            else:
                v = self._valid0(hs, c)
                if v.status == 'invalid':
                    return Verdict('invalid', 'template-instance+' + v.how, model=dict(model, rest=v.model))
        return None

    def _valid0(self, hyps, concl):
        why = ''
        try:
            enc = Enc()
            self.queries += 1
            r, s = enc.check_valid(hyps, concl, self.timeout_ms)
            if r == 'unsat':
                return Verdict('valid', 'array')
            why = 'array:' + r
            arr_model = s.model() if r == 'sat' else None
            s_array = s
        except Unsupported as e:
            why = 'array-unsupported:%s' % e
            r, arr_model = 'unknown', None
        except z3.Z3Exception as e:
            why = 'array-z3error:%s' % str(e)[:60]
            r, arr_model = 'unknown', None
        # A constant of the theory that the encoding left uninterpreted may have a definition or axioms the
        # counter-model ignores: such a model proves nothing.  (Leaving it uninterpreted is sound for `valid` only.)
        loose = sorted(n for n in getattr(enc, 'used_uninterp', ()) if n not in FREE_CONSTS) if r == 'sat' else []
        if loose:
            return Verdict('unknown', 'counter-model relies on uninterpreted constants %s' % loose)
        # finite fallback / confirmation (only types built from type variables, bool, fun, set)
        try:
            all_unsat = True
            for k in range(1, self.kmax + 1):
                fin = Fin(k)
                hs = [fin.tr(h) for h in hyps]
                c = fin.tr(concl)
                s = z3.Solver()
                s.set('timeout', self.timeout_ms)
                for g in fin.side:
                    s.add(g)
                for h in hs:
                    s.add(h)
                s.add(z3.Not(c))
                self.queries += 1
                rr = str(s.check())
                if rr == 'sat':
                    m = s.model()
                    interp = self._decode_model(fin, hyps + [concl], m)
                    ok = all(pyeval(fin, h, interp) is True for h in hyps) and pyeval(fin, concl, interp) is False
                    if ok:
                        return Verdict('invalid', 'finite-%d' % k, model={'k': k, 'interp': {str(kk): vv for kk, vv in interp.items()}})
                    return Verdict('unknown', 'finite-%d model not confirmed by evaluator' % k)
                if rr != 'unsat':
                    all_unsat = False
            if all_unsat:
                if r == 'sat':
                    # array encoding claims a counter-model that no finite model up to kmax exhibits
                    return Verdict('unknown', why + '; finite<=%d all unsat' % self.kmax)
                return Verdict('valid', 'finite<=%d' % self.kmax, bounded=True)
            return Verdict('unknown', why + '; finite unknown')
        except Unsupported as e:
            pass
        except z3.Z3Exception as e:
            return Verdict('unknown', why + '; finite-z3error:%s' % str(e)[:60])
        # arithmetic: ground statements are decided by the independent evaluator
        if r == 'sat':
            try:
                if all(ground_eval(h) is True for h in hyps) and ground_eval(concl) is False:
                    return Verdict('invalid', 'array+ground-eval', model={})
                return Verdict('unknown', why + '; ground evaluator disagrees')
            except Unsupported:
                pass
            ok = self._confirm_arith(hyps, concl, arr_model, enc)
            if ok:
                return Verdict('invalid', 'array+qf-eval', model=ok)
            if self.second_solver:
                # quantified arithmetic: the evaluator cannot enumerate; ask an independent solver (cvc5) the same question
                r2 = self._second_solver(s_array)
                if r2 == 'sat':
                    return Verdict('invalid', 'array+cvc5', model={'note': 'z3 and cvc5 both find a counter-model', 'z3_model': str(arr_model)[:300]})
                return Verdict('unknown', why + '; model not confirmed (second solver: %s)' % r2)
            return Verdict('unknown', why + '; model not confirmed')
        return Verdict('unknown', why)

    def _second_solver(self, solver):
        import subprocess
        import tempfile
        import os
        txt = solver.to_smt2()
        if 'lambda' in txt:
            return 'unsupported (lambda)'
        with tempfile.NamedTemporaryFile('w', suffix='.smt2', delete=False) as f:
            f.write('(set-logic ALL)\n' + txt)
            path = f.name
        try:
            pr = subprocess.run(['cvc5', '--tlimit=3000', path], capture_output=True, text=True, timeout=6)
            out = pr.stdout.strip().splitlines()
            if out and out[0] in ('sat', 'unsat') and '(error' not in pr.stdout:
                return out[0]
            return 'unknown'
        except (subprocess.TimeoutExpired, OSError):
            return 'unknown'
        finally:
            os.unlink(path)

    def _decode_model(self, fin, terms, m):
        interp = {}
        seen = {}

        def walk(t):
            if t.is_var() or t.is_svar() or (t.is_const() and t.name not in PY_CONSTS):
                kind = 'S' if t.is_svar() else ('V' if t.is_var() else 'C')
                key = (kind, t.name, tkey(t.T))
                if key in fin.consts and key not in interp:
                    interp[key] = _decode(fin, t.T, fin.consts[key], m)
            elif t.is_comb():
                walk(t.fun)
                walk(t.arg)
            elif t.is_abs():
                walk(t.body)
        for t in terms:
            walk(t)
        return interp

    def _confirm_arith(self, hyps, concl, model, enc):
        """Quantifier-free first-order arithmetic: re-evaluate under the model's values of the free symbols."""
        try:
            val = {}
            for (kind, name, tk), c in enc.consts.items():
                if kind == 'default':
                    continue
                if z3.is_array(c):
                    return None
                v = model.eval(c, model_completion=True)
                if z3.is_int_value(v):
                    val[(kind, name, tk)] = v.as_long()
                elif z3.is_rational_value(v):
                    val[(kind, name, tk)] = Fraction(v.numerator_as_long(), v.denominator_as_long())
                elif z3.is_true(v) or z3.is_false(v):
                    val[(kind, name, tk)] = z3.is_true(v)
                else:
                    return None
            from kernel.term import Const, Number, true, false
            from kernel.term import Inst

            def subst(t):
                if t.is_var() or t.is_svar() or t.is_const():
                    kind = 'S' if t.is_svar() else ('V' if t.is_var() else 'C')
                    key = (kind, t.name, tkey(t.T))
                    if key in val:
                        v = val[key]
                        if isinstance(v, bool):
                            return true if v else false
                        if t.T == NatType and v < 0:
                            raise Unsupported('negative nat in model')
                        return Number(t.T, v)
                    return t
                if t.is_comb():
                    return subst(t.fun)(subst(t.arg))
                if t.is_abs():
                    raise Unsupported('binder')
                return t
            hs = [ground_eval(subst(h)) for h in hyps]
            c = ground_eval(subst(concl))
            if all(h is True for h in hs) and c is False:
                return {'%s %s::%s' % k: str(v) for k, v in val.items()}
        except Unsupported:
            return None
        return None
