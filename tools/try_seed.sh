#!/bin/bash
# usage: tools/try_seed.sh <seed-dir> <check ids...>   -- apply the patch to /repo, run demo + checks, undo
set -u
D="$1"; shift
cd /repo || exit 2
if ! git diff --quiet; then echo "repo dirty"; exit 2; fi
git apply "$D/patch.diff" || { echo "patch does not apply"; exit 2; }
echo "== demo with patch:"; (cd /repo && PYTHONPATH=/repo timeout 600 /venv/bin/python "$D/demo.py" > /tmp/demo.out 2>&1; echo "exit=$?"; tail -3 /tmp/demo.out)
for c in "$@"; do
  echo "== check $c (quick) with patch:"; (cd /verif && timeout 900 ./check $c --tier quick --no-evidence 2>&1 | grep -E "VIOLATION|KNOWN|$c tier|ERROR" | cut -c1-260 | head -8)
done
git -C /repo checkout -- . 
echo "== demo without patch:"; (cd /repo && PYTHONPATH=/repo timeout 600 /venv/bin/python "$D/demo.py" > /tmp/demo.out 2>&1; echo "exit=$?"; tail -1 /tmp/demo.out)
