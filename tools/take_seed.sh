#!/bin/bash
# usage: tools/take_seed.sh <P>   -- copies /tmp/wt/<P>/_seed into seeded/<P>-<next free index> and tries it with try_seed_wt.sh
set -u
P="$1"; W=/tmp/wt/$P
[ -f "$W/_seed/patch.diff" ] || { echo "no seed in $W/_seed"; exit 2; }
n=$(ls /verif/seeded | grep "^$P-" | sed "s/^$P-//" | sort -n | tail -1); n=$((n+1))
D=/verif/seeded/$P-$n; mkdir -p "$D"
cp "$W/_seed/patch.diff" "$W/_seed/demo.py" "$D/"; cp "$W/_seed/notes.md" "$D/" 2>/dev/null
# demos refer to the agent's worktree; they are run with PYTHONPATH=<worktree>, keep them as delivered
git -C "$W" checkout -- . ; rm -rf "$W/_seed.bak"; mv "$W/_seed" "$W/_seed.bak"
echo "seed copied to $D"
/verif/tools/try_seed_wt.sh "$D" "$W" "$P"
