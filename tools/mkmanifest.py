#!/usr/bin/env python3
"""Regenerate /verif/MANIFEST.json from the per-property harness modules (props/cXX.py) and validate it."""
import importlib, json, os, sys
ROOT = os.path.dirname(os.path.dirname(os.path.abspath(__file__)))
sys.path.insert(0, '/repo'); sys.path.insert(1, ROOT)
NA = {
    'C07': 'printing and parsing are string computations through Lark LALR tables and re lexing: every input must be concrete, nothing stays symbolic, and the only oracle is structural equality of the re-parsed term, so a check would be enumeration of concrete runs, not solver-based checking (DESIGN sections 3/C07 and 9.1); the print/parse obligations of the calculator and the while language, where the re-parsed object has a solver-decidable meaning, are checked under C19 and C20',
    'C14': 'quantifies over reachable proof states of recorded library proofs and compares two concrete code paths (search vs apply); no scalar input to make symbolic and no semantic statement a solver can decide (DESIGN section 4)',
}
checks = []
claimed = []
for n in range(1, 21):
    pid = 'C%02d' % n
    p = os.path.join(ROOT, 'props', pid.lower() + '.py')
    if not os.path.exists(p):
        continue
    src = open(p).read()
    ns = {}
    # read the metadata constants without importing repo modules
    import ast
    tree = ast.parse(src)
    for node in tree.body:
        if isinstance(node, ast.Assign) and len(node.targets) == 1 and isinstance(node.targets[0], ast.Name) \
                and node.targets[0].id in ('PID', 'LEVEL', 'TECHNIQUE', 'LEVEL_TEXT', 'LEVEL_NOTE', 'DESIGN_REF', 'CLAIMED'):
            ns[node.targets[0].id] = ast.literal_eval(node.value)
    if ns.get('CLAIMED', True) is False:
        continue
    claimed.append(pid)
    checks.append({
        'property_id': pid,
        'quick_cmd': './check %s --tier quick' % pid,
        'thorough_cmd': './check %s --tier thorough' % pid,
        'evidence_file': '/verif/evidence/%s.json' % pid,
        'replay_cmd_template': './check %s --replay {path}' % pid,
        'engine': 'symx+holsmt',
        'level_claimed': {'category': ns['LEVEL'], 'text': ns.get('LEVEL_TEXT', ''), 'design_ref': ns.get('DESIGN_REF', 'DESIGN.md section 3 ' + pid)},
        'level_note': ns.get('LEVEL_NOTE', ''),
        'technique': ns.get('TECHNIQUE', ''),
    })
na = [{'property_id': k, 'reason': v} for k, v in sorted(NA.items())]
for n in range(1, 21):
    pid = 'C%02d' % n
    if pid not in claimed and pid not in NA:
        na.append({'property_id': pid, 'reason': 'check not built yet in this round (planned: see DESIGN.md section 3); nothing is claimed for it'})
m = {
    'version': 1,
    'setup_cmd': 'true',
    'hooks': {'guard': 'HOLPY_VERIF', 'enable': 'no source hooks: harnesses bind module globals (kernel.term.id, logic.basic.os, sys.modules[smt]) from their own process',
              'baseline_off_cmd': 'cd /repo && /venv/bin/python -m pytest -ra -q -p no:cacheprovider --timeout=900 --continue-on-collection-errors',
              'source_commits': [], 'add_only': True},
    'engines': [
        {'name': 'symx', 'path': 'vlib/symx.py', 'serves_properties': claimed, 'kind_free_text': 'proxy-based symbolic execution of the real Python code; z3 decides path feasibility and assertions; replay-based DFS, exhaustive within declared bounds'},
        {'name': 'holsmt', 'path': 'vlib/holsmt.py', 'serves_properties': claimed, 'kind_free_text': 'HOL sequent -> z3 validity oracle (arrays/uninterpreted sorts; finite tuple encoding fallback; independent evaluator confirms counter-models)'},
    ],
    'checks': checks,
    'not_applicable': sorted(na, key=lambda d: d['property_id']),
    'notes': 'All checks: ./check <ID> --tier quick|thorough; exit 0 held, 1 VIOLATION (replayed natively), 2/3 harness/engine error. Known findings: known_findings.json + kf.py.',
}
json.dump(m, open(os.path.join(ROOT, 'MANIFEST.json'), 'w'), indent=1)
try:
    import jsonschema
    jsonschema.validate(m, json.load(open('/root/.vp/MANIFEST.schema.json')))
    print('MANIFEST valid;', len(checks), 'checks')
except ImportError:
    print('MANIFEST written (jsonschema not available here);', len(checks), 'checks')
