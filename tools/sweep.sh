#!/bin/bash
# usage: tools/sweep.sh <tier> [ids...]   -- runs the given (default: all claimed) checks once, prints rc and wall time per check
tier="$1"; shift
ids="$@"
[ -z "$ids" ] && ids=$(python3 -c "import json;print(' '.join(c['property_id'] for c in json.load(open('MANIFEST.json'))['checks']))")
for c in $ids; do
  s=$(date +%s)
  ./check $c --tier $tier --no-evidence > sweep_$c.log 2>&1
  rc=$?
  e=$(date +%s)
  echo "$c rc=$rc wall=$((e-s))s $(grep "^$c tier" sweep_$c.log | cut -c1-200)"
  grep -E "VIOLATION|kind=|Traceback|Error" sweep_$c.log | head -6 | cut -c1-300
done
