#!/bin/bash
# usage: tools/try_seed_wt.sh <seed-dir> <worktree> <check ids...>
# Same as try_seed.sh but applies the patch in a scratch worktree and points the checks at it with HOLPY_REPO,
# so /repo itself is not touched (usable while other checks are running against /repo).
set -u
D="$(readlink -f "$1")"; W="$2"; shift; shift
cd "$W" || exit 2
if ! git diff --quiet; then echo "worktree dirty"; exit 2; fi
git apply "$D/patch.diff" || { echo "patch does not apply"; exit 2; }
echo "== demo with patch:"; (cd "$W" && PYTHONPATH="$W" timeout 600 /venv/bin/python "$D/demo.py" > /tmp/demo_$$.out 2>&1; echo "exit=$?"; tail -3 /tmp/demo_$$.out)
for c in "$@"; do
  echo "== check $c (quick) with patch:"; (cd /verif && HOLPY_REPO="$W" timeout 900 ./check $c --tier quick --no-evidence 2>&1 | grep -E "VIOLATION|KNOWN|$c tier|ERROR" | cut -c1-260 | head -8)
done
git -C "$W" checkout -- .
echo "== demo without patch:"; (cd "$W" && PYTHONPATH="$W" timeout 600 /venv/bin/python "$D/demo.py" > /tmp/demo_$$.out 2>&1; echo "exit=$?"; tail -1 /tmp/demo_$$.out); rm -f /tmp/demo_$$.out
