#!/usr/bin/env python3
"""Run the repository's pinned baseline suite and compare with /root/.vp/BASELINE.json (stable_pass)."""
import json, subprocess, sys, xml.etree.ElementTree as ET, os, tempfile
out = sys.argv[1] if len(sys.argv) > 1 else tempfile.mktemp(suffix='.xml')
subprocess.run('cd /repo && /venv/bin/python -m pytest -ra -q -p no:cacheprovider --timeout=900 --continue-on-collection-errors --junitxml=%s > %s.log 2>&1' % (out, out), shell=True)
base = json.load(open('/root/.vp/BASELINE.json'))
passed = set()
for tc in ET.parse(out).getroot().iter('testcase'):
    if not any(ch.tag in ('failure', 'error', 'skipped') for ch in tc):
        passed.add('%s::%s' % (tc.get('classname'), tc.get('name')))
missing = [t for t in base['stable_pass'] if t not in passed]
print('passed', len(passed), 'baseline', len(base['stable_pass']), 'baseline tests no longer passing:', missing)
sys.exit(1 if missing else 0)
