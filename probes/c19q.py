import sys, time, warnings
warnings.filterwarnings('ignore')
sys.path.insert(0, '/repo')
from integral import expr, poly, parser, rules, context, conditions
ctx = context.Context()
for rule, s in [(rules.Linearity(), "INT x:[a,b]. 2*x + 3*x^2"),
                (rules.Simplify(), "INT x:[0,1]. (x+1)^2 - x^2"),
                (rules.Substitution("u", parser.parse_expr("2*x+1")), "INT x:[0,1]. (2*x+1)^2"),
                (rules.IntegrationByParts(parser.parse_expr("x"), parser.parse_expr("x^2/2")), "INT x:[0,1]. x*x"),
                (rules.SplitRegion(parser.parse_expr("1/2")), "INT x:[0,1]. x^2"),
                (rules.ExpandPolynomial(), "INT x:[0,1]. (x+1)^2"),
                (rules.CommonIntegral(), "INT x:[0,1]. x^2"),
                ]:
    e = parser.parse_expr(s)
    try:
        r = rule.eval(e, ctx)
        print(type(rule).__name__, '|', e, '->', r)
    except Exception as ex:
        print(type(rule).__name__, 'EXC', type(ex).__name__, str(ex)[:100])
print(rules.deriv('x', parser.parse_expr("x^3/(x+1)"), ctx))
from integral import interval
print(interval.get_bounds_for_expr(parser.parse_expr("x^2 - x"), {parser.parse_expr("x"): interval.Interval.closed(expr.Const(0), expr.Const(2))}) if hasattr(interval.Interval, 'closed') else dir(interval.Interval)[:40])
