import sys, time, itertools, warnings
warnings.filterwarnings('ignore')
sys.path.insert(0, '/repo')
from data import real
from logic import basic
basic.load_theory('hoare')
from imperative import parser2, expr, com
import z3
def ze(e, st):
    if isinstance(e, expr.Var): return st[e.name]
    if isinstance(e, expr.Const): return z3.BoolVal(e.val) if isinstance(e.val, bool) else z3.IntVal(e.val)
    if isinstance(e, expr.Op):
        a = [ze(x, st) for x in e.args]
        op = e.op
        if len(a) == 1: return {'-': lambda x: -x, '~': z3.Not}[op](a[0])
        f = {'+': lambda x, y: x + y, '-': lambda x, y: x - y, '*': lambda x, y: x * y, '==': lambda x, y: x == y,
             '!=': lambda x, y: x != y, '<=': lambda x, y: x <= y, '<': lambda x, y: x < y, '>=': lambda x, y: x >= y,
             '>': lambda x, y: x > y, '&': z3.And, '|': z3.Or, '-->': z3.Implies, '<-->': lambda x, y: x == y}[op]
        return f(*a)
    if isinstance(e, expr.ITE) or type(e).__name__ == 'ITE':
        return z3.If(ze(e.b, st), ze(e.e1, st), ze(e.e2, st))
    raise NotImplementedError(repr(e))
V = ['x', 'y']
st0 = {v: z3.Int(v) for v in V}
# (2) shown = computed: print / reparse equivalence over all states
ex = [expr.Var('x'), expr.Var('y'), expr.Const(1)]
ex2 = ex + [expr.Op(o, a, b) for o in '+-*' for a in ex for b in ex]
ex3 = [expr.Op(o, a, b) for o in '+-*' for a in ex2 for b in ex2 if not (a in ex and b in ex)]
bad = 0; n = 0; t0 = time.monotonic(); first = None
s = z3.Solver()
for e in ex3:
    c = expr.Op('==', e, expr.Const(0))
    n += 1
    try:
        c2 = parser2.cond_parser.parse(str(c))
    except Exception as ex_:
        continue
    s.push(); s.add(ze(c, st0) != ze(c2, st0)); r = s.check(); 
    if str(r) == 'sat':
        bad += 1
        if first is None: first = (repr(c), str(c), repr(c2), s.model())
    s.pop()
print('reparse: exprs', n, 'inequivalent', bad, 'wall %.1f' % (time.monotonic() - t0)); print(first)
# (1) VC soundness on one program family
prog = "if (x < y) then x := y - x else y := x - (y - 1)"
c = parser2.com_parser.parse(prog)
post = parser2.cond_parser.parse("x <= y | y <= x")
pre = c.compute_wp(post)
print('wp:', pre)
