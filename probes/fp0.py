import z3, time, math
F = z3.Float64(); rm = z3.RNE()
a = z3.BitVec('a', 8)
fa = z3.fpToFP(rm, z3.ZeroExt(8, a), F)  # unsigned? use fpUnsignedToFP
fa = z3.fpUnsignedToFP(rm, a, F)
s = z3.fpSqrt(rm, fa)
prod = z3.fpMul(rm, s, s)
for name, cond in [('lt', z3.fpLT(prod, fa)), ('gt', z3.fpGT(prod, fa)), ('neq', z3.Not(z3.fpEQ(prod, fa)))]:
    sol = z3.Solver(); sol.set('timeout', 120000)
    sol.add(z3.UGE(a, 2), cond)
    t0 = time.time(); r = sol.check(); dt = time.time() - t0
    if str(r) == 'sat':
        v = sol.model()[a].as_long()
        print(name, r, v, math.sqrt(v) * math.sqrt(v), '%.1fs' % dt)
    else:
        print(name, r, '%.1fs' % dt)
