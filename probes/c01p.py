import sys, time, itertools, warnings
warnings.filterwarnings('ignore')
sys.path.insert(0, '/repo'); sys.path.insert(0, __import__('os').path.dirname(__import__('os').path.abspath(__file__)))
import z3
from kernel.type import TVar, STVar, TFun, BoolType, TyInst
from kernel.term import Var, SVar, Eq, Forall, Inst, Term, Implies, Lambda, Bound, Comb, Abs
from kernel.thm import Thm
from kernel.proof import Proof
from kernel import theory
import holsmt0 as H
import fin0
theory.thy = theory.EmptyTheory()
A = TVar('a'); SA = STVar('a'); B = TVar('b')
leaves = []
for nm in ('x', 'y'):
    for K in (Var, SVar):
        for T in (A, SA):
            leaves.append(K(nm, T))
def preds(v): return [Var('P', TFun(v.T, BoolType))(v)]
terms = list(leaves)
for v in leaves: terms += preds(v)
terms += [Eq(v, w) for v in leaves[:4] for w in leaves[:4] if v.T == w.T]
terms += [Lambda(leaves[0], leaves[0]), Var('b0', BoolType), SVar('b1', BoolType), Bound(0)]
terms += [Var('P', TFun(A, BoolType))(SVar('x', SA))]  # ill-typed
print('pool', len(terms))
args_for = {
 'assume': terms, 'reflexive': terms, 'beta_conv': [Comb(Lambda(leaves[0], preds(leaves[0])[0]), leaves[1])],
 'implies_intr': terms, 'forall_intr': leaves, 'forall_elim': leaves, 'abstraction': leaves,
 'subst_type': [TyInst(a=B), TyInst(a=BoolType)],
 'substitution': 'INST',
 'implies_elim': [None], 'symmetric': [None], 'transitive': [None], 'combination': [None], 'equal_intr': [None], 'equal_elim': [None],
}
def insts():
    out = []
    for nm in ('x', 'y', 'b1'):
        for t in [Var('c', B), Var('c', A), leaves[0], Var('b0', BoolType)]:
            out.append({nm: t})
    return out
nprev = {'assume': 0, 'reflexive': 0, 'beta_conv': 0, 'implies_intr': 1, 'forall_intr': 1, 'forall_elim': 1, 'abstraction': 1,
         'subst_type': 1, 'substitution': 1, 'implies_elim': 2, 'symmetric': 1, 'transitive': 2, 'combination': 2, 'equal_intr': 2, 'equal_elim': 2}
def scripts(L):
    """yield list of (rule, arg, prevs)"""
    def rec(k, cur):
        if k == L:
            yield list(cur); return
        for rule, n in nprev.items():
            if n > k: continue
            if n == 2 and k < 2: continue
            al = insts() if args_for[rule] == 'INST' else args_for[rule]
            for a in al:
                for pv in itertools.product(range(k), repeat=n):
                    if n and (k - 1) not in pv: continue   # must use the latest step (avoid dead steps)
                    cur.append((rule, a, pv)); yield from rec(k + 1, cur); cur.pop()
    yield from rec(0, [])
t0 = time.monotonic(); n = 0; acc = 0; inval = {}; unk = 0
seen = set()
for L in (2, 3):
    for sc in scripts(L):
        n += 1
        prf = Proof()
        for i, (rule, a, pv) in enumerate(sc):
            arg = Inst(**a) if isinstance(a, dict) else a
            prf.add_item(i, rule, args=arg, prevs=list(pv))
        try:
            th = theory.check_proof(prf, no_gaps=True)
        except theory.CheckProofException:
            continue
        except Exception as e:
            key = ('EXC', type(e).__name__, sc[-1][0])
            inval.setdefault(key, 0); inval[key] += 1
            continue
        acc += 1
        sk = str(th)
        if sk in seen: continue
        seen.add(sk)
        try:
            r = H.Enc().valid(th, 2000)[0]
        except NotImplementedError:
            r = 'unsupported'
        if r == 'unknown':
            try:
                r = fin0.Fin(2).valid(th)[0]
            except Exception:
                r = 'unknown'
        if r == 'sat':
            key = ('INVALID', tuple(s[0] for s in sc))
            if key not in inval: inval[key] = sk
        elif r != 'unsat': unk += 1
        if time.monotonic() - t0 > 240: break
    print('L', L, 'scripts', n, 'accepted', acc, 'distinct', len(seen), 'unknown/unsupported', unk, 'wall %.1f' % (time.monotonic() - t0))
for k, v in inval.items(): print(k, v)
