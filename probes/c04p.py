import sys, time, itertools, warnings
warnings.filterwarnings('ignore')
sys.path.insert(0, '/repo')
from data import real, nat
from logic import basic, logic
basic.load_theory('nat')
from kernel.term import *
from kernel.type import *
from kernel.thm import Thm
from kernel import theory
from kernel.proof import Proof, ItemID
p, q, r = BoolVars('p q r')
atoms = [p, q, true, false]
def forms(d):
    if d == 0: return list(atoms)
    sub = forms(d - 1)
    return sub + [f(a, b) for f in (And, Or) for a in sub for b in sub]
F = forms(1)
F2 = F + [And(a, b) for a in F[:12] for b in F[:12]] + [Or(a, b) for a in F[:12] for b in F[:12]]
print(len(F), len(F2))
t0 = time.monotonic(); stats = {}
bad = []
for name in ('imp_conj', 'imp_disj'):
    mac = theory.get_macro(name)
    for A in F2:
        for B in F:
            goal = Implies(A, B)
            try:
                ev = mac.eval(goal, [])
            except AssertionError:
                ev = None
            except Exception as e:
                ev = ('EXC', type(e).__name__)
            try:
                prf = Proof(); prf.add_item(0, name, args=goal)
                th = theory.check_proof(prf, no_gaps=True)
                ex = th
            except (AssertionError, theory.CheckProofException) as e:
                ex = None
            except Exception as e:
                ex = ('EXC', type(e).__name__, str(e)[:60])
            key = (name, ev is not None and not isinstance(ev, tuple), ex is not None and not isinstance(ex, tuple))
            stats[key] = stats.get(key, 0) + 1
            if isinstance(ex, tuple) or isinstance(ev, tuple) or (ev is None) != (ex is None) or (ev is not None and ex is not None and not ex.can_prove(ev)):
                if len(bad) < 8: bad.append((name, str(goal), str(ev), str(ex)))
print(stats, 'wall %.1f' % (time.monotonic() - t0))
for b in bad: print(b)
# C10 API check
x, y = NatVars('x y')
t = (x + y) * (y + x) + Nat(2) * x
cv = nat.norm_full()
pt = cv.get_proof_term(t)
print(pt.th)
print(theory.check_proof(pt.export(), no_gaps=True))
t2 = Nat(2) * x + (y + x) * (x + y)
print(cv.get_proof_term(t2).rhs == pt.rhs)
