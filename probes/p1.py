import sys
sys.path.insert(0, '/repo')
from kernel.type import TVar, STVar, TFun, BoolType
from kernel.term import Var, SVar, Eq, Forall, Inst, Term, Implies
from kernel.thm import Thm, InvalidDerivationException

NAMES = ['x', 'y']

def mk(kind: bool, nm: str):
    a = TVar('a')
    return SVar(nm, a) if kind else Var(nm, a)

def forall_intr_side(k1: bool, n1: str, k2: bool, n2: str) -> bool:
    """
    pre: len(n1) == 1 and len(n2) == 1
    post: _
    """
    a = TVar('a')
    P = Var('P', TFun(a, BoolType))
    h = mk(k1, n1)
    x = mk(k2, n2)
    th = Thm.assume(P(h))
    try:
        th2 = Thm.forall_intr(x, th)
    except (InvalidDerivationException, Exception):
        return True
    # side condition: generalised variable must not be (kind,name)-equal to hyp variable
    return k1 or not (k1 == k2 and n1 == n2)
