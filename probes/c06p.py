import sys, time, itertools, warnings
warnings.filterwarnings('ignore')
sys.path.insert(0, '/repo')
from data import real, nat
from logic import basic, matcher
basic.load_theory('real')
from kernel.term import *
from kernel.type import *
from prover import z3wrapper
from syntax import infertype
from logic import context
import z3
n, m = NatVars('n m'); i, j = IntVars('i j')
goals = [
  Exists(n, Eq(n + Nat(1), Nat(0))),
  Exists(n, n < m),                                   # false for m = 0
  Implies(Forall(n, Var('f', TFun(NatType, IntType))(n) > Int(0)), Var('f', TFun(NatType, IntType))(m - Nat(5)) > Int(0)),  # true
  Not(Forall(n, n >= Nat(0))),                        # false; z3: forall n:Int. n>=0 is false -> "proved"?
  Forall(n, n >= Nat(0)),                             # true; incomplete is fine
  Implies(Not(Exists(n, n < Nat(0))), false),         # false in HOL (antecedent true)
  Eq(n - m + m, n),                                   # false (n<m)
  Implies(n >= m, Eq(n - m + m, n)),                  # true
]
for g in goals:
    s = z3wrapper.solve_core(z3.Solver(), g)
    print('%-55s impl-proved=%s   assertions=%s' % (str(g), str(s.check()) == 'unsat', [str(a)[:60] for a in s.assertions()][:3]))
# C09 defect
x = SVar('x', NatType)
inst = matcher.first_order_match(x, true)
print('match ?x::nat against true ->', dict(inst))
try:
    print(x.subst_norm(inst))
except Exception as e:
    print('subst raises', type(e).__name__, e)
# C08 skeleton
context.set_context('real', vars={'a': 'nat'}) if hasattr(context, 'set_context') else None
t = Comb(Comb(Const('plus', None), Var('a', None)), Var('b', None))
try:
    r = infertype.type_infer(t)
    print('infer:', repr(r))
except Exception as e:
    print('infer raises', type(e).__name__, str(e)[:100])
