import sys
sys.path.insert(0, '/repo')
from typing import List, Tuple
from prover import sat

def brute(cnf, nvars):
    for m in range(2**nvars):
        ok = True
        for cl in cnf:
            s = False
            for (v, b) in cl:
                if ((m >> v) & 1 == 1) == b:
                    s = True
                    break
            if not s:
                ok = False
                break
        if ok:
            return True
    return False

def check(cnf: List[List[Tuple[int, bool]]]) -> bool:
    """
    pre: len(cnf) <= 3
    pre: all(len(c) <= 2 for c in cnf)
    pre: all(0 <= v < 2 for c in cnf for (v, b) in c)
    pre: all(len(set(v for (v, b) in c)) == len(c) for c in cnf)
    post: _
    """
    names = ['a', 'b']
    real = [[(names[v], b) for (v, b) in c] for c in cnf]
    res, cert = sat.solve_cnf(real)
    if res == 'satisfiable':
        return sat.is_solution(real, cert) and brute(cnf, 2)
    else:
        return not brute(cnf, 2)
