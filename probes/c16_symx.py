import sys, time, itertools, math
sys.path.insert(0, '/repo'); sys.path.insert(0, __import__('os').path.dirname(__import__('os').path.abspath(__file__)))
import z3, symx0, symx1
from symx0 import Engine, SymBool
from symx1 import SymInt
symx1.install()
import warnings; warnings.filterwarnings('ignore')
from data import real
from prover import omega
viol = []; stats = {'SAT': 0, 'UNSAT': 0, 'NOCONCL': 0, 'EXC': 0}
def mk_run(keys):
    m = len(keys); nv = len(keys[0])
    cs = [z3.Int('c%d' % i) for i in range(m)]
    xs = [z3.Int('x%d' % j) for j in range(nv)]
    def run(eng):
        for c in cs: eng.solver.add(c >= -8, c <= 8)
        matrix = [list(keys[i]) + [SymInt(cs[i])] for i in range(m)]
        try:
            res, data = omega.solve_matrix(matrix)
        except (TypeError, AttributeError, ZeroDivisionError) as e:
            stats['EXC'] += 1
            viol.append(('exc', keys, repr(e)[:80])); return
        stats[res] += 1
        sysx = z3.And([sum(keys[i][j] * xs[j] for j in range(nv)) + cs[i] >= 0 for i in range(m)])
        if res == 'UNSAT':
            if eng.check(sysx) != 'unsat':
                viol.append(('wrong-unsat', keys, eng.solver.model()))
        elif res == 'SAT':
            vals = []
            for j in range(nv):
                v = data.get(j, 0)
                vals.append(v.e if isinstance(v, SymInt) else z3.IntVal(int(v)))
            inst = z3.substitute(sysx, *[(xs[j], vals[j]) for j in range(nv)])
            if eng.check(z3.Not(inst)) != 'unsat':
                viol.append(('bad-witness', keys, eng.solver.model()))
    return run
rng = [-2, -1, 0, 1, 2]
rows = [r for r in itertools.product(rng, repeat=2)]
t0 = time.monotonic(); paths = 0; q = 0; n = 0
import random
random.seed(1)
allkeys = list(itertools.product(rows, repeat=3))
random.shuffle(allkeys)
for keys in allkeys[:300]:
    eng = Engine(); symx0.ENG = eng
    eng.explore(mk_run(keys), max_paths=2000)
    paths += eng.paths; q += eng.queries; n += 1
print('shapes', n, 'paths', paths, 'queries', q, 'wall %.1f' % (time.monotonic() - t0), stats, 'viol', len(viol))
for v in viol[:5]: print(v)
