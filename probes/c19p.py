import sys, time, itertools, warnings
warnings.filterwarnings('ignore')
sys.path.insert(0, '/repo')
from integral import expr, poly, parser, rules, context, conditions
from integral.expr import Var, Const, Op, Fun
import z3
from fractions import Fraction
x = z3.Real('x'); a = z3.Real('a')
side = []
def ze(e):
    if e.is_var(): return {'x': x, 'a': a}[e.name]
    if e.is_const():
        v = e.val
        return z3.RealVal(str(v))
    if e.is_op():
        A = [ze(t) for t in e.args]
        if len(A) == 1: return -A[0]
        if e.op == '+': return A[0] + A[1]
        if e.op == '-': return A[0] - A[1]
        if e.op == '*': return A[0] * A[1]
        if e.op == '/': side.append(A[1] != 0); return A[0] / A[1]
        if e.op == '^':
            n = e.args[1]
            if n.is_const() and isinstance(n.val, int) and n.val >= 0:
                r = z3.RealVal(1)
                for _ in range(n.val): r = r * A[0]
                return r
            if n.is_const() and isinstance(n.val, int) and n.val < 0:
                r = z3.RealVal(1)
                for _ in range(-n.val): r = r * A[0]
                side.append(r != 0); return 1 / r
            if n.is_const() and n.val == Fraction(1, 2):
                s = z3.FreshReal('s'); side.append(z3.And(s >= 0, s * s == A[0], A[0] >= 0)); return s
    if e.is_fun() and e.func_name == 'sqrt':
        A0 = ze(e.args[0]); s = z3.FreshReal('s'); side.append(z3.And(s >= 0, s * s == A0, A0 >= 0)); return s
    if e.is_fun() and e.func_name == 'abs':
        A0 = ze(e.args[0]); return z3.If(A0 >= 0, A0, -A0)
    raise NotImplementedError(str(e))
tests = ["(x+1)^2 - x^2", "x/(x+1) + 1/(x+1)", "(x^2-1)/(x-1)", "sqrt(x^2)", "sqrt(x)*sqrt(x)", "x^(1/2)*x^(1/2)", "abs(x)*abs(x)", "(x+a)*(x-a)", "x/x", "1/(1/x)", "sqrt(x)^2", "x^(-1)*x", "(x*a)/a", "sqrt(x*x*a*a)"]
ctx = context.Context()
for sx in tests:
    e = parser.parse_expr(sx)
    try:
        ne = poly.normalize(e, conditions.Conditions()) if hasattr(conditions, 'Conditions') else None
    except Exception as ex:
        print(sx, 'EXC', repr(ex)[:80]); continue
    side.clear()
    try:
        l, r = ze(e), ze(ne)
    except NotImplementedError as ex:
        print(sx, '->', ne, 'unsupported', ex); continue
    s = z3.Solver(); s.set('timeout', 10000)
    s.add(*side); s.add(l != r)
    t0 = time.monotonic(); res = s.check()
    print('%-22s -> %-22s %s %.2fs %s' % (sx, ne, res, time.monotonic() - t0, s.model() if str(res) == 'sat' else ''))
