import sys, time, itertools, warnings
warnings.filterwarnings('ignore')
sys.path.insert(0, '/repo')
from prover.congc import CongClosure
import z3
N = 4
names = ['c%d' % i for i in range(N)]
S = z3.DeclareSort('U'); f = z3.Function('f', S, S, S); cs = [z3.Const(n, S) for n in names]
def zeq(eq):
    l, r = eq
    if isinstance(l, tuple): return f(cs[l[0]], cs[l[1]]) == cs[r]
    return cs[l] == cs[r]
eqs_all = [(a, b) for a in range(N) for b in range(a + 1, N)] + [((a, b), c) for a in range(N) for b in range(N) for c in range(N)]
print('equation universe', len(eqs_all))
t0 = time.monotonic(); n = 0; bad = []; q = 0
import random
random.seed(0)
for k in (1, 2, 3):
    combos = list(itertools.combinations(eqs_all, k))
    random.shuffle(combos)
    for eqs in combos[:1500]:
        for order in itertools.permutations(eqs):
            cc = CongClosure()
            for nm in names: cc.add_var(nm)
            for l, r in order:
                cc.merge((names[l[0]], names[l[1]]) if isinstance(l, tuple) else names[l], names[r])
            n += 1
            s = z3.Solver(); s.add(*[zeq(e) for e in eqs])
            for a in range(N):
                for b in range(a + 1, N):
                    got = cc.test(names[a], names[b])
                    s.push(); s.add(cs[a] != cs[b]); want = str(s.check()) == 'unsat'; s.pop(); q += 1
                    if got != want: bad.append((order, names[a], names[b], got, want))
print('runs', n, 'queries', q, 'wall %.1f' % (time.monotonic() - t0), 'bad', len(bad)); print(bad[:3])
