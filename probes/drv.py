import sys, time
sys.path.insert(0, '/repo'); sys.path.insert(0, __import__('os').path.dirname(__import__('os').path.abspath(__file__)))
import z3
_orig_check = z3.Solver.check
STAT = {'q': 0, 't': 0.0}
def _check(self, *a):
    from crosshair import NoTracing
    with NoTracing():
        t0 = time.monotonic()
        try:
            return _orig_check(self, *a)
        finally:
            STAT['q'] += 1; STAT['t'] += time.monotonic() - t0
z3.Solver.check = _check
from crosshair.core_and_libs import analyze_function, run_checkables
from crosshair.options import AnalysisOptionSet, AnalysisKind
import h1
opts = AnalysisOptionSet(analysis_kind=[AnalysisKind.PEP316], per_condition_timeout=float(sys.argv[1]) if len(sys.argv) > 1 else 60, per_path_timeout=10, max_uninteresting_iterations=10**9, report_all=True)
t0 = time.monotonic()
for fn in [h1.deriv2]:
    checkables = analyze_function(fn, opts)
    for msg in run_checkables(checkables):
        print(msg.state, msg.message[:300])
print('paths', h1.PATHS, 'oracle', h1.ORACLE, 'viol', len(h1.VIOL), 'wall %.1f' % (time.monotonic() - t0), STAT)
for v in h1.VIOL[:5]: print(v)
