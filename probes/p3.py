from prover import sat
import itertools, signal
def handler(s,f): raise TimeoutError
signal.signal(signal.SIGALRM, handler)
lits=[('a',True),('a',False),('b',True),('b',False)]
clauses=[]
for k in range(0,3):
    for c in itertools.product(lits, repeat=k):
        clauses.append(list(c))
print(len(clauses))
bad=0
for n in range(0,3):
    for cnf in itertools.product(clauses, repeat=n):
        signal.setitimer(signal.ITIMER_REAL, 0.5)
        try:
            sat.solve_cnf([list(c) for c in cnf])
        except TimeoutError:
            bad+=1
            if bad<5: print('TIMEOUT', cnf)
        except Exception as e:
            bad+=1
            if bad<5: print('EXC', type(e).__name__, e, cnf)
        finally:
            signal.setitimer(signal.ITIMER_REAL, 0)
print('bad',bad)
