import sys
sys.path.insert(0, '/repo'); sys.path.insert(0, __import__('os').path.dirname(__import__('os').path.abspath(__file__)))
from crosshair import NoTracing
from crosshair.tracers import ResumedTracing
from crosshair.core import deep_realize
from kernel.type import TVar, STVar, TFun, BoolType
from kernel.term import Var, SVar, Eq, Forall, Inst, Term, Implies
from kernel.thm import Thm, InvalidDerivationException, primitive_deriv
from kernel.term import TermException, TypeCheckException
from kernel.type import TyInst
import holsmt0 as H
PATHS = 0; ORACLE = 0; VIOL = []
A = TVar('a'); SA = STVar('a')
def leaf(kind: int, nm: int, ty: int):
    T = [A, SA][ty]
    n = ['x', 'y'][nm]
    return [Var, SVar][kind](n, T)
def atom(p: int, v):
    return Var(['P', 'Q'][p], TFun(v.T, BoolType))(v)

def step(rule: int, a1, ths, i: int, j: int):
    if rule == 0: return Thm.assume(a1)
    if rule == 1: return Thm.implies_intr(a1, ths[i])
    if rule == 2: return Thm.implies_elim(ths[i], ths[j])
    if rule == 3: return Thm.forall_intr(a1, ths[i])
    if rule == 4: return Thm.forall_elim(a1, ths[i])
    if rule == 5: return Thm.reflexive(a1)
    if rule == 6: return Thm.abstraction(a1, ths[i])
    if rule == 7: return Thm.subst_type(TyInst(a=A), ths[i])
    if rule == 8: return Thm.substitution(Inst(x=a1), ths[i])
    raise InvalidDerivationException('x')

def deriv2(k0: int, n0: int, t0: int, p0: int, k1: int, n1: int, t1: int, r1: int, r2: int, w1: int, w2: int) -> bool:
    """
    pre: 0 <= k0 <= 1 and 0 <= n0 <= 1 and 0 <= t0 <= 1 and 0 <= p0 <= 1
    pre: 0 <= k1 <= 1 and 0 <= n1 <= 1 and 0 <= t1 <= 1
    pre: 1 <= r1 <= 8 and 1 <= r2 <= 8 and 0 <= w1 <= 1 and 0 <= w2 <= 1
    post: _
    """
    global PATHS, ORACLE
    PATHS += 1
    v0 = leaf(k0, n0, t0); v1 = leaf(k1, n1, t1)
    ths = [Thm.assume(atom(p0, v0))]
    try:
        a = [v1, atom(0, v1)]
        ths.append(step(r1, a[w1], ths, 0, 0))
        th = step(r2, a[w2], ths, 1, 0)
        th.check_thm_type()
    except (InvalidDerivationException, TermException, TypeCheckException, TypeError, AssertionError, AttributeError):
        return True
    with NoTracing():
        th = deep_realize(th)
        ORACLE += 1
        r, dt, m = H.Enc().valid(th, 2000)
        if r == 'sat':
            VIOL.append(str(th))
            return False
    return True
