import sys, time, itertools
sys.path.insert(0,'/repo'); sys.path.insert(0, __import__('os').path.dirname(__import__('os').path.abspath(__file__)))
import z3
from kernel.type import TVar, STVar, TFun, BoolType
from kernel.term import Var, SVar, Eq, Forall, Term, Lambda, Implies, Comb
from kernel.thm import Thm

class Fin:
    """Finite tuple encoding: type vars -> {0..k-1} as z3 Int-free enum via BitVec? use Int with range constraints on declared consts; quantifiers expanded over base sort values."""
    def __init__(self, k):
        self.k = k; self.consts = {}; self.cnt = 0; self.side = []
    def elems(self, T):
        """list of all concrete values of type T (python-side enumeration) - only for domains"""
        if T.is_tvar() or T.is_stvar(): return list(range(self.k))
        if T.name == 'bool': return [False, True]
        if T.name == 'fun':
            dom = self.elems(T.args[0]); rng = self.elems(T.args[1])
            return [tuple(c) for c in itertools.product(rng, repeat=len(dom))]
        raise NotImplementedError
    def lift(self, T, v):
        """concrete value -> symbolic representation"""
        if T.is_tvar() or T.is_stvar(): return z3.IntVal(v)
        if T.name == 'bool': return z3.BoolVal(v)
        return tuple(self.lift(T.args[1], c) for c in v)
    def fresh(self, T, nm):
        """symbolic value of type T: base -> z3 const; fun -> tuple of fresh per domain element"""
        if T.is_tvar() or T.is_stvar():
            self.cnt += 1; c = z3.Int('%s_%d' % (nm, self.cnt)); self.side.append(z3.And(c >= 0, c < self.k)); return c
        if T.name == 'bool':
            self.cnt += 1; return z3.Bool('%s_%d' % (nm, self.cnt))
        return tuple(self.fresh(T.args[1], nm) for _ in self.elems(T.args[0]))
    def eq(self, T, a, b):
        if T.is_tconst() and T.name == 'fun':
            return z3.And([self.eq(T.args[1], x, y) for x, y in zip(a, b)])
        return a == b
    def ite(self, T, c, a, b):
        if T.is_tconst() and T.name == 'fun':
            return tuple(self.ite(T.args[1], c, x, y) for x, y in zip(a, b))
        return z3.If(c, a, b)
    def app(self, T, f, a):
        """f : T = A=>B (tuple indexed by elems(A)), a symbolic of type A"""
        A, B = T.args
        dom = self.elems(A)
        res = f[-1]
        for i in range(len(dom) - 2, -1, -1):
            res = self.ite(B, self.eq(A, a, self.lift(A, dom[i])), f[i], res)
        return res
    def tr(self, t, env=()):
        if t.is_var() or t.is_svar():
            key = (t.ty, t.name, str(t.T))
            if key not in self.consts: self.consts[key] = self.fresh(t.T, t.name)
            return self.consts[key]
        if t.is_bound(): return env[t.n]
        if t.is_abs():
            return tuple(self.tr(t.body, (self.lift(t.var_T, d),) + env) for d in self.elems(t.var_T))
        if t.is_comb():
            h, args = t.strip_comb()
            if h.is_const():
                if h.name == 'equals' and len(args) == 2:
                    return self.eq(h.T.args[0], self.tr(args[0], env), self.tr(args[1], env))
                if h.name == 'implies' and len(args) == 2:
                    return z3.Implies(self.tr(args[0], env), self.tr(args[1], env))
                if h.name == 'all' and len(args) == 1:
                    PT = h.T.args[0]; A = PT.args[0]
                    P = self.tr(args[0], env)
                    return z3.And(list(P))  # P is tuple over all elems of A: full expansion
            return self.app(t.fun.get_type() if not env else self.typeof(t.fun, env), self.tr(t.fun, env), self.tr(t.arg, env))
        raise NotImplementedError(t)
    def typeof(self, t, env):
        # crude: types of loose bounds unknown here; prototype only handles closed funs
        return t.get_type()
    def valid(self, th):
        s = z3.Solver()
        hy = [self.tr(h) for h in th.hyps]; c = self.tr(th.prop)
        for x in self.side: s.add(x)
        for h in hy: s.add(h)
        s.add(z3.Not(c))
        t0 = time.monotonic(); r = s.check(); return str(r), round(time.monotonic() - t0, 4)
a = STVar('a')
f = Var('f', TFun(a, a)); F = Var('F', TFun(TFun(a, a), BoolType))
z = Var('z', a)
th5 = Thm(Implies(Forall(f, F(f)), F(Lambda(z, z))))
th6 = Thm(Implies(F(Lambda(z, z)), Forall(f, F(f))))
P = Var('P', TFun(a, BoolType)); x = SVar('x', a)
th1 = Thm(Forall(x, P(x)), P(x))
for k in (1, 2, 3):
    print(k, 'valid HO', Fin(k).valid(th5), 'invalid HO', Fin(k).valid(th6), 'forall_intr bug', Fin(k).valid(th1))
