"""symx prototype with SymInt + isinstance patch."""
import builtins, z3, time, numbers
from symx0 import Engine, SymBool, Infeasible
import symx0

_isinstance = builtins.isinstance
def z(o):
    if _isinstance(o, SymInt): return o.e
    if _isinstance(o, SymBool): return z3.If(o.e, 1, 0)
    if _isinstance(o, bool): return z3.IntVal(int(o))
    if _isinstance(o, int): return z3.IntVal(o)
    return None
class SymInt:
    __slots__ = ('e',)
    def __init__(self, e): self.e = e
    def _bin(self, o, f):
        oe = z(o)
        if oe is None: return NotImplemented
        return SymInt(z3.simplify(f(self.e, oe)))
    def _cmp(self, o, f):
        oe = z(o)
        if oe is None: return NotImplemented
        return SymBool(f(self.e, oe))
    def __add__(self, o): return self._bin(o, lambda a, b: a + b)
    def __radd__(self, o): return self._bin(o, lambda a, b: b + a)
    def __sub__(self, o): return self._bin(o, lambda a, b: a - b)
    def __rsub__(self, o): return self._bin(o, lambda a, b: b - a)
    def __mul__(self, o): return self._bin(o, lambda a, b: a * b)
    def __rmul__(self, o): return self._bin(o, lambda a, b: b * a)
    def __neg__(self): return SymInt(-self.e)
    def __floordiv__(self, o): return self._bin(o, lambda a, b: a / b)  # z3 int div is floor for positive divisor only! (prototype)
    def __mod__(self, o): return self._bin(o, lambda a, b: a % b)
    def __lt__(self, o): return self._cmp(o, lambda a, b: a < b)
    def __le__(self, o): return self._cmp(o, lambda a, b: a <= b)
    def __gt__(self, o): return self._cmp(o, lambda a, b: a > b)
    def __ge__(self, o): return self._cmp(o, lambda a, b: a >= b)
    def __eq__(self, o):
        oe = z(o)
        if oe is None: return False
        return SymBool(self.e == oe)
    def __ne__(self, o):
        oe = z(o)
        if oe is None: return True
        return SymBool(self.e != oe)
    def __bool__(self): return symx0.ENG.branch(self.e != 0)
    def concretize(self):
        eng = symx0.ENG
        # fork on value: pick model value v; branch (e == v)
        while True:
            if eng.pos < len(eng.prefix):
                # replaying: decisions recorded as branch on (e == v) sequence; recompute v deterministically
                pass
            assert eng.check() == 'sat'
            v = eng.solver.model().eval(self.e, model_completion=True).as_long()
            if eng.branch(self.e == v):
                return v
    def __index__(self): return self.concretize()
    def __int__(self): return self.concretize()
    def __hash__(self): return hash(self.concretize())
    def __repr__(self): return str(self.concretize())
    __str__ = __repr__
    @property
    def numerator(self): return self
    @property
    def denominator(self): return 1

def patched_isinstance(o, cls):
    if type(o) is SymInt:
        if cls is int or cls is numbers.Integral or cls is numbers.Rational or cls is numbers.Number: return True
        if type(cls) is tuple and any(c in (int, numbers.Integral, numbers.Rational, numbers.Number) for c in cls): return True
    return _isinstance(o, cls)
def install(): builtins.isinstance = patched_isinstance

class SymReal:
    __slots__ = ('e',)
    def __init__(self, e): self.e = e
    def __floor__(self): return SymInt(z3.ToInt(self.e))
    def __ceil__(self): return SymInt(-z3.ToInt(-self.e))
    def __neg__(self): return SymReal(-self.e)
    def __int__(self):  # trunc toward zero
        return SymInt(z3.If(self.e >= 0, z3.ToInt(self.e), -z3.ToInt(-self.e)))
def zr(o):
    if _isinstance(o, SymReal): return o.e
    if _isinstance(o, SymInt): return z3.ToReal(o.e)
    if _isinstance(o, (int, float)): return z3.RealVal(o)
    return None
def _truediv(self, o):
    d = zr(o)
    if d is None: return NotImplemented
    return SymReal(z3.ToReal(self.e) / d)
def _rtruediv(self, o):
    d = zr(o)
    return SymReal(d / z3.ToReal(self.e))
SymInt.__truediv__ = _truediv
SymInt.__rtruediv__ = _rtruediv
