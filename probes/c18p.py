import sys, types, time, itertools, warnings
warnings.filterwarnings('ignore')
sys.path.insert(0, '/repo')
m = types.ModuleType('smt'); m.__path__ = ['/repo/smt']; sys.modules['smt'] = m
from data import real
from logic import basic
from smt.veriT import verit_macro
basic.load_theory('smt')
from kernel.term import *
from kernel.type import *
from kernel.thm import Thm
from kernel import theory
import z3
p, q, r = BoolVars('p q r')
atoms = [p, q]
d1 = atoms + [Not(a) for a in atoms] + [f(a, b) for f in (And, Or, Implies, Eq) for a in atoms for b in atoms if not (a is b and f is Eq)]
d1 += [Not(x) for x in d1[4:]]
print('formulas', len(d1))
def subf(t):
    res = {t}
    if t.is_not(): res |= subf(t.arg)
    elif t.is_conj() or t.is_disj() or t.is_implies() or (t.is_equals() and t.arg.get_type() == BoolType):
        res |= subf(t.arg1) | subf(t.arg)
    return res
def enc(t):
    if t.is_var(): return z3.Bool(t.name)
    if t.is_not(): return z3.Not(enc(t.arg))
    if t.is_conj(): return z3.And(enc(t.arg1), enc(t.arg))
    if t.is_disj(): return z3.Or(enc(t.arg1), enc(t.arg))
    if t.is_implies(): return z3.Implies(enc(t.arg1), enc(t.arg))
    if t.is_equals(): return enc(t.arg1) == enc(t.arg)
    if t == true: return z3.BoolVal(True)
    if t == false: return z3.BoolVal(False)
    raise NotImplementedError(repr(t))
rules = [k for k in theory.global_macros if k.startswith('verit_')]
stats = {}
t0 = time.monotonic(); calls = 0; bad = {}
s = z3.Solver()
for phi in d1:
    lits = set()
    for x in subf(phi): lits |= {x, Not(x), Not(Not(x))}
    lits = sorted(lits, key=str)
    prem = [[], [Thm(phi)]]
    for n in (1, 2, 3):
        for cl in itertools.product(lits, repeat=n):
            for pv in prem:
                for rn in rules:
                    mac = theory.global_macros[rn]
                    calls += 1
                    try:
                        th = mac.eval(tuple(cl), pv)
                    except BaseException as e:
                        continue
                    stats[rn] = stats.get(rn, 0) + 1
                    try:
                        goal = z3.Implies(z3.And([enc(x.prop) for x in pv] + [z3.BoolVal(True)]), enc(th.prop))
                    except NotImplementedError:
                        continue
                    s.push(); s.add(z3.Not(goal)); rr = s.check(); s.pop()
                    if str(rr) == 'sat':
                        bad.setdefault(rn, []).append((str(phi) if pv else '-', [str(c) for c in cl], str(th)))
    if time.monotonic() - t0 > 150: print('time cap at', str(phi)); break
print('calls', calls, 'wall %.1f' % (time.monotonic() - t0))
print('accepted per rule', sorted(stats.items(), key=lambda kv: -kv[1])[:60])
for rn, l in bad.items(): print('UNSOUND', rn, len(l), l[0])
