"""Tiny proxy-based symbolic executor prototype (DFS, replay-based)."""
import z3, time

class Infeasible(Exception): pass

class Engine:
    def __init__(self):
        self.solver = z3.Solver()
        self.queries = 0; self.solver_time = 0.0
        self.paths = 0
    def check(self, *extra):
        t0 = time.monotonic()
        r = self.solver.check(*extra)
        self.queries += 1; self.solver_time += time.monotonic() - t0
        return str(r)
    # --- one run
    def begin(self, prefix):
        self.prefix = prefix; self.pos = 0; self.trace = []
        self.solver.push()
    def end(self):
        self.solver.pop()
    def branch(self, cond):
        """Return bool decision for z3 Bool cond."""
        if self.pos < len(self.prefix):
            d = self.prefix[self.pos][0]
        else:
            t_ok = self.check(cond) == 'sat'
            f_ok = self.check(z3.Not(cond)) == 'sat'
            if t_ok and f_ok:
                d = True; self.trace.append((True, True))  # (decision, has_alternative)
            elif t_ok:
                d = True; self.trace.append((True, False))
            elif f_ok:
                d = False; self.trace.append((False, False))
            else:
                raise Infeasible()
            self.pos += 1
            self.solver.add(cond if d else z3.Not(cond))
            return d
        self.trace.append(self.prefix[self.pos]); self.pos += 1
        self.solver.add(cond if d else z3.Not(cond))
        return d
    def explore(self, fn, max_paths=10**9):
        """fn(engine) runs the harness once. DFS over decisions."""
        stack = [[]]
        while stack and self.paths < max_paths:
            prefix = stack.pop()
            self.begin(prefix)
            try:
                fn(self)
                self.paths += 1
            except Infeasible:
                pass
            finally:
                tr = self.trace
                self.end()
            # schedule alternatives for new decisions (beyond prefix)
            for i in range(len(prefix), len(tr)):
                d, alt = tr[i]
                if alt:
                    stack.append(tr[:i] + [(not d, False)])

ENG = None
class SymBool:
    __slots__ = ('e',)
    def __init__(self, e): self.e = e
    def __bool__(self): return ENG.branch(self.e)
    def __eq__(self, o):
        oe = o.e if isinstance(o, SymBool) else z3.BoolVal(bool(o))
        return SymBool(self.e == oe)
    def __ne__(self, o):
        oe = o.e if isinstance(o, SymBool) else z3.BoolVal(bool(o))
        return SymBool(self.e != oe)
    def __hash__(self):
        return hash(bool(self))
    def __repr__(self): return repr(bool(self))
