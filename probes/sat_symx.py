import sys, time, itertools
sys.path.insert(0, '/repo'); sys.path.insert(0, __import__('os').path.dirname(__import__('os').path.abspath(__file__)))
import z3, symx0
from symx0 import Engine, SymBool
from prover import sat
import signal
class NonTerm(Exception): pass
def handler(s, f): raise NonTerm()
signal.signal(signal.SIGALRM, handler)

names = ['a', 'b', 'c']
def shapes(nv, maxc, maxl):
    cl = []
    for k in range(0, maxl + 1):
        for c in itertools.combinations(range(nv), k):   # no duplicate vars in clause
            cl.append(c)
    for n in range(0, maxc + 1):
        for s in itertools.product(cl, repeat=n):
            yield s

viol = []; tot_paths = 0; tot_q = 0; t_start = time.monotonic(); nshape = 0; st = 0.0
for shape in shapes(3, 3, 3):
    nshape += 1
    eng = Engine(); symx0.ENG = eng
    pol = [[z3.Bool('p_%d_%d' % (i, j)) for j in range(len(c))] for i, c in enumerate(shape)]
    def run(eng):
        cnf = [[(names[v], SymBool(pol[i][j])) for j, v in enumerate(c)] for i, c in enumerate(shape)]
        signal.setitimer(signal.ITIMER_REAL, 2.0)
        try:
            res, cert = sat.solve_cnf(cnf)
        finally:
            signal.setitimer(signal.ITIMER_REAL, 0)
        # oracle: symbolic CNF formula satisfiable? exists assignment
        xs = {n: z3.Bool('x_' + n) for n in names}
        F = z3.And([z3.Or([xs[names[v]] == pol[i][j] for j, v in enumerate(c)]) for i, c in enumerate(shape)])
        if res == 'satisfiable':
            # certificate must satisfy every clause for ALL polarity values on this path
            ok = z3.And([z3.Or([ (cert[names[v]].e if isinstance(cert[names[v]], SymBool) else z3.BoolVal(cert[names[v]])) == pol[i][j]
                                 for j, v in enumerate(c) if names[v] in cert]) for i, c in enumerate(shape)])
            if eng.check(z3.Not(ok)) != 'unsat':
                viol.append(('badmodel', shape, eng.solver.model()))
        else:
            # unsat verdict: must have no satisfying assignment for any polarity values on this path
            if eng.check(F) != 'unsat':
                viol.append(('wrongunsat', shape, eng.solver.model()))
    eng.explore(run)
    tot_paths += eng.paths; tot_q += eng.queries; st += eng.solver_time
print('shapes', nshape, 'paths', tot_paths, 'queries', tot_q, 'solver_s %.1f' % st, 'wall %.1f' % (time.monotonic() - t_start), 'viol', len(viol))
print(viol[:3])
