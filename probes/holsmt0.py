import sys, time
sys.path.insert(0,'/repo')
import z3
from kernel.type import TVar, STVar, TFun, BoolType
from kernel.term import Var, SVar, Eq, Forall, Inst, Term, Lambda, Implies, Const, Abs, Bound, Comb
from kernel.thm import Thm

class Enc:
    def __init__(self):
        self.sorts = {}
        self.consts = {}
        self.n = 0
    def sort(self, T):
        if T.is_tvar() or T.is_stvar():
            key = ('?' if T.is_stvar() else "'") + T.name
            if key not in self.sorts:
                self.sorts[key] = z3.DeclareSort('S_' + key.replace("'", 'q').replace('?', 's'))
            return self.sorts[key]
        if T.name == 'bool': return z3.BoolSort()
        if T.name == 'fun':
            return z3.ArraySort(self.sort(T.args[0]), self.sort(T.args[1]))
        raise NotImplementedError(T)
    def fresh(self, T):
        self.n += 1
        return z3.Const('b%d' % self.n, self.sort(T))
    def tr(self, t, env=()):
        if t.is_var() or t.is_svar():
            key = (t.ty, t.name, str(t.T))
            if key not in self.consts:
                self.consts[key] = z3.Const(('s_' if t.is_svar() else 'v_') + t.name + '_%d' % len(self.consts), self.sort(t.T))
            return self.consts[key]
        if t.is_bound():
            return env[t.n]
        if t.is_abs():
            x = self.fresh(t.var_T)
            return z3.Lambda([x], self.tr(t.body, (x,) + env))
        if t.is_comb():
            h, args = t.strip_comb()
            if h.is_const():
                if h.name == 'equals' and len(args) == 2:
                    return self.tr(args[0], env) == self.tr(args[1], env)
                if h.name == 'implies' and len(args) == 2:
                    return z3.Implies(self.tr(args[0], env), self.tr(args[1], env))
                if h.name == 'all' and len(args) == 1:
                    P = args[0]
                    dom = h.T.args[0].args[0]
                    x = self.fresh(dom)
                    if P.is_abs():
                        return z3.ForAll([x], self.tr(P.body, (x,) + env))
                    return z3.ForAll([x], z3.Select(self.tr(P, env), x))
            return z3.Select(self.tr(t.fun, env), self.tr(t.arg, env))
        if t.is_const():
            if t.name == 'true': return z3.BoolVal(True)
            if t.name == 'false': return z3.BoolVal(False)
            # generic: eta-expand known logical constants
            if t.name == 'equals':
                A = t.T.args[0]
                x, y = self.fresh(A), self.fresh(A)
                return z3.Lambda([x], z3.Lambda([y], x == y))
            raise NotImplementedError(t)
    def valid(self, th, timeout=5000):
        s = z3.Solver(); s.set('timeout', timeout)
        for h in th.hyps: s.add(self.tr(h))
        s.add(z3.Not(self.tr(th.prop)))
        t0 = time.monotonic(); r = s.check()
        return str(r), time.monotonic() - t0, (s.model() if str(r) == 'sat' else None)

a = STVar('a'); b = TVar('b')
P = Var('P', TFun(a, BoolType)); x = SVar('x', a)
th = Thm.forall_intr(x, Thm.assume(P(x)))
print(th, Enc().valid(th)[:2])
xv = Var('x0', a); yv = Var('y0', a)
t = Thm.forall_elim(x, Thm.assume(Forall(xv, yv, Eq(xv, yv))))
t2 = Thm.substitution(Inst(x=Var('c', b)), t)
print(t2, Enc().valid(t2)[:2])
# valid ones
f = Var('f', TFun(a, a)); g = Var('g', TFun(a, a))
th3 = Thm.abstraction(Var('z', a), Thm.assume(Eq(f(Var('z', a)), g(Var('z', a)))).__class__(Eq(f(Var('z', a)), g(Var('z', a))), Forall(Var('z',a), Eq(f(Var('z', a)), g(Var('z', a))))))
print(th3, Enc().valid(th3)[:2])
th4 = Thm.beta_conv(Comb(Lambda(Var('z', a), f(f(Var('z', a)))), Var('w', a)))
print(th4, Enc().valid(th4)[:2])
# higher-order quantification
F = Var('F', TFun(TFun(a, a), BoolType))
th5 = Thm(Implies(Forall(f, F(f)), F(Lambda(Var('z', a), Var('z', a)))))
print(th5, Enc().valid(th5)[:2])
th6 = Thm(Implies(F(Lambda(Var('z', a), Var('z', a))), Forall(f, F(f))))
print(th6, Enc().valid(th6)[:2])

CNT = 0
class EncFin(Enc):
    def __init__(self, k):
        super().__init__(); self.k = k
    def sort(self, T):
        if T.is_tvar() or T.is_stvar():
            key = ('?' if T.is_stvar() else "'") + T.name
            if key not in self.sorts:
                global CNT; CNT += 1; nm = 'S_' + key.replace("'", 'q').replace('?', 's') + str(CNT)
                self.sorts[key] = z3.EnumSort(nm, ['%s_e%d' % (nm, i) for i in range(self.k)])[0]
            return self.sorts[key]
        return super().sort(T)
for k in (1, 2, 3):
    print(k, EncFin(k).valid(th6)[:2], EncFin(k).valid(th5)[:2], EncFin(k).valid(th)[:2])
