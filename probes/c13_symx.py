import sys, time
sys.path.insert(0, '/repo'); sys.path.insert(0, __import__('os').path.dirname(__import__('os').path.abspath(__file__)))
import z3, symx0, symx1
from symx0 import Engine
from symx1 import SymInt
symx1.install()
from kernel.proof import Proof, ProofItem, ItemID
from kernel.thm import Thm
from kernel.term import Var, BoolType
from server.method import ProofState
from kernel import theory
theory.thy = theory.EmptyTheory()
A = Var('A', BoolType)
viol = []
def run(eng):
    N = 4
    # top-level proof of N items, item 2 has a subproof with 2 items; prevs symbolic
    st = ProofState()
    st.prf = Proof()
    pv = [z3.Int('pv%d' % i) for i in range(N)]
    objs = []
    for i in range(N):
        if i == 0:
            it = ProofItem((i,), 'sorry', th=Thm(A, A))
        else:
            eng.solver.add(pv[i] >= 0, pv[i] < i)
            it = ProofItem((i,), 'sorry', prevs=[(SymInt(pv[i]),)], th=Thm(A, A))
        st.prf.items.append(it); objs.append(it)
    sub = Proof(); sub.items = [ProofItem((2, 0), 'sorry', th=Thm(A, A)), ProofItem((2, 1), 'sorry', prevs=[(2, 0)], th=Thm(A, A))]
    st.prf.items[2].subproof = sub; st.prf.items[2].rule = 'subproof'
    target_before = {}
    for i in range(1, N):
        target_before[i] = st.prf.items[i].prevs[0]
    k = z3.Int('k'); n = z3.Int('n')
    eng.solver.add(k >= 0, k < N, n >= 1, n <= 2)
    # remember which object each prev pointed to, symbolically: index expression pv[i]
    st.add_line_before((SymInt(k),), SymInt(n))
    # postcondition: ids equal positions; each old item's prev now points at position of the same old object
    items = st.prf.items
    for pos, it in enumerate(items):
        ok = (it.id.id[0] == pos)
        if not ok:
            viol.append(('id!=pos', pos, str(it.id))); return
    for i in range(1, N):
        it = objs[i]
        p = it.prevs[0].id[0]
        # new position of old object j is j + n if j >= k else j
        pe = p.e if isinstance(p, SymInt) else z3.IntVal(p)
        expect = z3.If(pv[i] >= k, pv[i] + n, pv[i])
        if eng.check(pe != expect) != 'unsat':
            viol.append(('prev moved', i, eng.solver.model())); return
eng = Engine(); symx0.ENG = eng
t0 = time.monotonic()
eng.explore(run)
print('paths', eng.paths, 'queries', eng.queries, 'solver %.2f' % eng.solver_time, 'wall %.2f' % (time.monotonic() - t0), 'viol', viol[:3])
